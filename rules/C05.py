"""C05 Pro-rata, at-most-once withdrawal of unbonded tokens."""
from .common import *
from . import shared
from .shared import agg_field
from engine.analysis import storage_ops_deep, must_pass

CRATE = "staking"
LST = ["liquid_stake_token_denom"]


def run(R, env):
    prog = env.prog("default")
    R.rule("C05.R1", "Withdraw: payout formula roles, own request only, claim removed on every success path, Received batches only (same obligations as C02.R1)")
    R.rule("C05.R2", "LiquidUnstake per world of the caller's existing request: Some => the request keeps batch_id and user and amount := old + paid; None => new request {pending id, sender, paid} under key (pending id, sender); in both the pending batch total += the same paid amount, and unstake_requests_count += 1 only in world None")
    R.rule("C05.R3", "keys: every unstake_requests() write uses key (batch id, user) equal to the record's own batch_id/user; the unique index is (user, batch_id)")
    R.rule("C05.R4", "the amount received for a batch is fixed once the batch is Received: only a Submitted batch can take a delivery, so a payout does not depend on the order or timing of other withdrawals (rule bodies of C06.R2/R3 for ReceiveUnstakedTokens)")
    R.assume("sum of payouts <= received is an arithmetic consequence of floor and batch_total == sum(requests) (R2); not machine-checked")
    sites = shared.site_contexts(prog, CRATE, env)
    if "Withdraw" not in sites or "LiquidUnstake" not in sites:
        R.ob("C05.R1", "handlers", False, "Withdraw/LiquidUnstake not dispatched", fn="staking::contract::execute")
        return
    shared.withdraw_rules(R, env, prog, sites["Withdraw"], "C05.R1", "C05")
    from engine.runner import Remap
    from . import C06

    class _OnlyReceive(Remap):
        def ob(self, rule, instance, ok, detail="", loc=None, fn=None, found=None):
            if not instance.startswith("ReceiveUnstakedTokens"):
                return bool(ok)
            return Remap.ob(self, rule, instance, ok, detail, loc, fn, found)

        def floor(self, rule, what, count, minimum):
            if "ReceiveUnstakedTokens" not in what:
                return None
            return Remap.floor(self, rule, what, count, minimum)

    C06.run(_OnlyReceive(R, {"C06.R2": "C05.R4", "C06.R3": "C05.R4"}), env)
    h = sites["LiquidUnstake"]
    hk = h.body.key
    paid = lambda t: shared.is_paid(prog, t, LST)
    pend = lambda t: is_load(prog, t, "pending_batch_id", CRATE) and t[0] == "payload"
    key_ok = lambda k: k[0] == "tuple" and len(k[1]) == 2 and pend(k[1][0]) and is_sender(k[1][1])

    def req_pred(t):  # the Option returned by may_load(unstake_requests, (pending, sender))?
        c = shared.unwrap_payload(t)
        return t[0] == "payload" and c[0] == "call" and c[1].endswith("IndexedMap::may_load") and ns_of(prog, c[2][0]) == "unstake_requests" and key_ok(c[2][2])

    def has_req(t):  # unstake_requests().has(storage, (pending, sender)): the same question as a boolean
        return t[0] == "call" and t[1].endswith("IndexedMap::has") and ns_of(prog, t[2][0]) == "unstake_requests" and key_ok(t[2][2])

    from engine.analysis import inline_walk as _iw5
    n_has = len([1 for c_, p_ in _iw5(prog, h, 2) for bi_, t_, a_ in call_sites(c_, lambda nm: nm.endswith("IndexedMap::has")) if has_req(c_.T.call_term(t_, bi_))])
    for want, name in ((True, "Some"), (False, "None")):
        rem, n = world_edges(h, req_pred, want)
        n += n_has
        # the world is an assumption on the stored request, however the handler asks for it (may_load()? tested
        # in place, has(), a helper around either, the Option handed to an update closure)
        w = h.assume((req_pred, ("ok", want)), (None, lambda t, want=want: (want if has_req(t) else None))).with_removed(rem).settle()
        R.worlds += 1
        R.ob("C05.R2", "LiquidUnstake:request=%s:tests" % name, n >= 1, "no test of the caller's existing request found", fn=hk)
        ops = [op for op in storage_ops_deep(prog, w, env.depth) if op["kind"] == "w"]
        rq = [op for op in ops if ns_of(prog, op["args"][0]) == "unstake_requests"]
        bt = [op for op in ops if ns_of(prog, op["args"][0]) == "batches"]
        other = [op for op in ops if op not in rq and op not in bt]
        R.ob("C05.R2", "LiquidUnstake:request=%s:write-set" % name, len(rq) == 1 and len(bt) == 1 and not other, "writes in this world: requests %s, batches %s, other %s" % ([o["op"] for o in rq], [o["op"] for o in bt], [(ns_of(prog, o["args"][0]), o["op"]) for o in other]), fn=hk)
        for op in rq:
            R.ob("C05.R2", "LiquidUnstake:request=%s:key" % name, key_ok(op["args"][2]), "request written under %s, expected (pending batch id, info.sender)" % fmt(op["args"][2])[:140], loc=op["loc"], fn=hk)
            R.ob("C05.R2", "LiquidUnstake:request=%s:on-every-success-path" % name, must_pass(w, op["root_bb"]), "unstake can succeed without recording the request", loc=op["loc"], fn=hk)
            val = op.get("value")
            recs = list(val[1]) if val is not None and val[0] == "phi" else ([val] if val is not None else [])
            is_old = lambda t: t[0] == "payload" and req_pred(("payload", shared.unwrap_payload(t), "Ok/Some")) and shared.unwrap_payload(t)[0] == "call"
            if want:
                good = bool(recs)
                pt = _paid_term(h, prog, paid)
                is_pt = lambda v_: paid(v_) or (pt is not None and norm(v_) == norm(pt))
                for rec in recs:
                    if rec[0] != "agg":
                        # `let mut r = old; r.amount += paid; r`: the stored record with only its amount increased
                        sd = struct_deltas(rec)
                        okd = bool(sd)
                        for base_, d_ in sd:
                            b_ = base_
                            while b_[0] == "payload" and b_[1][0] == "call" and b_[1][1] in ("std::option::Option::ok_or", "std::option::Option::ok_or_else", "std::result::Result::map_err") and b_[1][2]:
                                b_ = ("payload", b_[1][2][0], "Ok/Some")  # x.ok_or(e)? is the payload of x
                            dv = d_.get(("amount",))
                            if not (set(d_) == {("amount",)} and is_old(b_) and dv is not None and delta_op(dv)[0] == "+=" and is_pt(delta_op(dv)[1])):
                                okd = False
                        if not okd:
                            good = False
                        continue
                    bid, usr, am = agg_field(rec, "batch_id"), agg_field(rec, "user"), fold(agg_field(rec, "amount") or ("none",))
                    bid_ok = bid is not None and ((bid[0] == "field" and bid[2] == "batch_id" and is_old(bid[1])) or pend(bid))
                    usr_ok = usr is not None and ((usr[0] == "field" and usr[2] == "user" and is_old(usr[1])) or is_sender(usr))
                    am_ok = False
                    if am[0] == "call" and am[1] == "std::ops::Add::add":
                        x, y = am[2]
                        for u, v in ((x, y), (y, x)):
                            if u[0] == "field" and u[2] == "amount" and is_old(u[1]) and is_pt(v):
                                am_ok = True
                    if am[0] == "mut" and am[2].endswith("AddAssign::add_assign") and am[1][0] == "field" and am[1][2] == "amount" and is_old(am[1][1]) and is_pt(am[3][0]):
                        am_ok = True
                    if not (bid_ok and usr_ok and am_ok):
                        good = False
                R.ob("C05.R2", "LiquidUnstake:request=Some:accumulates", good, "existing request is not replaced by {same batch_id, same user, amount: old + paid}: %s" % fmt(val or ("none",))[:200], loc=op["loc"], fn=hk)
            else:
                good = bool(recs) and all(rec[0] == "agg" and pend(agg_field(rec, "batch_id")) and is_sender(agg_field(rec, "user")) and paid(agg_field(rec, "amount")) for rec in recs)
                R.ob("C05.R2", "LiquidUnstake:request=None:creates", good, "new request is not {batch_id: pending id, user: info.sender, amount: paid}: %s" % fmt(val or ("none",))[:200], loc=op["loc"], fn=hk)
        for op in bt:
            R.ob("C05.R2", "LiquidUnstake:request=%s:batch-key" % name, pend(op["args"][2]), "batch updated under %s" % fmt(op["args"][2])[:100], loc=op["loc"], fn=hk)
            R.ob("C05.R2", "LiquidUnstake:request=%s:batch-on-every-success-path" % name, must_pass(w, op["root_bb"]), "unstake can succeed without adding to the batch total", loc=op["loc"], fn=hk)
            # the value written in this world (an update closure sees the world through a captured boolean)
            ds = shared.write_value_alternatives(prog, op, "batches") or []
            good = len(ds) == 1
            for base, d in ds:
                want_fields = {("batch_total_liquid_stake",)} | (set() if want else {("unstake_requests_count",)})
                if set(d) != want_fields or not shared.is_stored_base(prog, base, "batches", CRATE):
                    good = False
                    continue
                v = d[("batch_total_liquid_stake",)]
                if not (delta_op(v)[0] == "+=" and paid(delta_op(v)[1])):
                    good = False
                if not want:
                    cnt = fold(d[("unstake_requests_count",)])
                    okc = cnt[0] == "agg" and cnt[2] == "Some" and cnt[3][0][2][0] == "bin" and cnt[3][0][2][1] == "Add" and const_int(cnt[3][0][2][3]) == 1
                    if not okc and cnt[0] == "agg" and cnt[2] == "Some":
                        # `count.map_or(1, |c| c + 1)`: the same increment with None read as 0
                        mv = cnt[3][0][2]
                        if mv[0] == "call" and mv[1] == "std::option::Option::map_or" and len(mv[2]) == 3 and const_int(mv[2][1]) == 1:
                            r_ = fold(closure_result(prog, mv[2][2], params={2: ("c",)}) or ("none",))
                            okc = r_[0] == "bin" and r_[1] == "Add" and ((r_[2] == ("c",) and const_int(r_[3]) == 1) or (r_[3] == ("c",) and const_int(r_[2]) == 1))
                    if not okc:
                        good = False
            via_ref = any(x_[0] == "mut" and x_[2] in ("std::option::Option::get_or_insert", "std::option::Option::get_or_insert_with", "std::option::Option::insert", "std::option::Option::as_mut") for base_, d_ in ds for x_ in d_.values())
            if via_ref and not good:
                # `*count.get_or_insert(0) += 1`: the field is updated through a reference handed back by a call; writes
                # through returned references are not modelled, so what is stored in that field is not decided
                R.set_undecided(["C05.R2"], "a field of the pending batch is updated through a reference returned by Option::get_or_insert & co.; writes through returned references are not modelled")
            R.ob("C05.R2", "LiquidUnstake:request=%s:batch-delta" % name, good, "in this world the pending batch is not updated by exactly {batch_total_liquid_stake += paid%s}" % ("" if want else ", unstake_requests_count += 1"), loc=op["loc"], fn=hk)
    R.clear_undecided(["C05.R2"])
    # ---------------- R3: key == record for every write in the crate; index closure
    n = 0
    for site, c in sites.items():
        for op in storage_ops_deep(prog, c, env.depth):
            if op["kind"] == "w" and ns_of(prog, op["args"][0]) == "unstake_requests" and op.get("wop") == "save" and op.get("value") is not None and op["op"] != "update":
                n += 1
                k, rec = op["args"][2], op["value"]

                def same_or_inherited(f, kv, rec_):
                    # the record's field is the key component, or the same field of the record that
                    # was loaded under this very key (key == record holds inductively)
                    v_ = agg_field(rec_, f)
                    if v_ is None:
                        return False
                    if norm(v_) == norm(kv):
                        return True
                    if v_[0] == "field" and v_[2] == f:
                        c_ = shared.unwrap_payload(v_[1])
                        return c_[0] == "call" and c_[1].endswith(("IndexedMap::may_load", "IndexedMap::load")) and ns_of(prog, c_[2][0]) == "unstake_requests" and norm(c_[2][2]) == norm(k)
                    return False

                recs_ = list(rec[1]) if rec[0] == "phi" else [rec]
                good = k[0] == "tuple" and all(r_[0] == "agg" and same_or_inherited("batch_id", k[1][0], r_) and same_or_inherited("user", k[1][1], r_) for r_ in recs_)
                R.ob("C05.R3", "key==record:%s" % site, good, "record %s saved under key %s" % (fmt(rec)[:120], fmt(k)[:100]), loc=op["loc"], fn=op["fn"])
    R.floor("C05.R3", "unstake_requests saves", n, 1)
    ib = [b for b in prog.fn_bodies(CRATE) if b.kind == "fn" and any(call_name(t) == "cw_storage_plus::IndexedMap::new" for _, t in b.calls())]
    R.floor("C05.R3", "IndexedMap constructors", len(ib), 1)
    for b in ib:
        c = Ctx(b)
        for bi, t, args in call_sites(c, lambda nm: nm == "cw_storage_plus::UniqueIndex::new"):
            idxf = args[0]
            res = None
            if idxf[0] == "closure":
                res = closure_result(prog, idxf, params={2: ("rec",)})
            elif idxf[0] == "fn":
                fb = prog.body(idxf[1])
                res = Terms(fb, params={1: ("rec",)}).return_term() if fb else None
            good = res is not None and res[0] == "tuple" and len(res[1]) == 2 and res[1][0] == ("field", ("rec",), "user") and res[1][1] == ("field", ("rec",), "batch_id")
            R.ob("C05.R3", "unique-index-is-(user,batch_id)", good, "index function yields %s" % fmt(res or ("none",))[:120], loc=b.loc(bi), fn=b.key)


def _paid_term(h, prog, paid):
    for p in (h.T.params or {}).values():
        if paid(p):
            return p
    return None
