"""C11 Protocol fee accounting on rewards."""
from .common import *
from . import shared, C02
from .shared import is_fee, is_reward
from engine.analysis import must_pass

CRATE = "staking"
FEE_WRITERS = {"instantiate": ":= 0", "ReceiveRewards": "accrues when no treasury", "LiquidStake": "ownerless-stake sweep (C01.R4)", "FeeWithdraw": "-= amount"}


def run(R, env):
    prog = env.prog("default")
    R.rule("C11.R1", "fee = dao_treasury_fee.multiply_ratio(reward, 100000) (floor by the library's contract); reward = amount of the ibc-denom coin in info.funds")
    R.rule("C11.R2", "restaked = Ok(checked_sub(reward, fee)), the Err case is an error exit; total_native_token += restaked; total_reward_amount += reward (the full reward)")
    R.rule("C11.R3", "ReceiveRewards has no success exit when total_liquid_stake_token.is_zero()")
    R.rule("C11.R4", "the fee leaves in the same transaction to the configured treasury xor accrues to total_fees (per treasury world)")
    R.rule("C11.R5", "FeeWithdraw: reject iff total_fees < amount; exactly that amount leaves, to the treasury only")
    R.rule("C11.R6", "State.total_fees changes only from {instantiate, ReceiveRewards, LiquidStake sweep, FeeWithdraw}")
    R.assume("Uint128::multiply_ratio floors and uses a 256-bit intermediate (library contract); rates beyond the representable range are not decided")
    sites = shared.site_contexts(prog, CRATE, env)
    if "ReceiveRewards" not in sites or "FeeWithdraw" not in sites:
        R.ob("C11.R1", "handlers", False, "ReceiveRewards/FeeWithdraw not dispatched", fn="staking::contract::execute")
        return
    h = sites["ReceiveRewards"]
    hk = h.body.key
    # R1: every multiply_ratio in the handler is the fee formula
    # (in the handler or in the helpers it calls, with their parameters bound to the handler's values)
    from engine.analysis import inline_walk as _iw11
    mrs = [(c_, bi, t, args) for c_, p_ in _iw11(prog, h, 2) for bi, t, args in call_sites(c_, lambda nm: nm == "cosmwasm_std::Uint128::multiply_ratio")]
    R.floor("C11.R1", "multiply_ratio sites in ReceiveRewards", len(mrs), 1)
    for c_, bi, t, args in mrs:
        term = c_.T.call_term(t, bi)
        R.ob("C11.R1", "ReceiveRewards:fee-formula", is_fee(prog, term), "fee computed as %s; expected protocol_fee_config.dao_treasury_fee.multiply_ratio(reward, 100000) with reward = the ibc-denom coin sent" % fmt(fold(term))[:240], loc=c_.body.loc(bi), fn=hk)

    def is_net0(t):
        if t[0] != "payload":
            return False
        c = shared.unwrap_payload(t)
        return c[0] == "call" and c[1] == "cosmwasm_std::Uint128::checked_sub" and is_reward(prog, c[2][0]) and is_fee(prog, c[2][1])

    is_net = shared.via_forms(prog, is_net0)

    def is_full_reward(t):
        """the reward itself, or `fee + (reward - fee)` with the checked subtraction that produced the restaked part
        (`split.total()` of a `RewardSplit { fee, restaked }`): the same number whenever the subtraction succeeded"""
        if is_reward(prog, t):
            return True
        from engine.analysis import forms as _f11
        for f_ in _f11(prog, t, 3):
            if is_reward(prog, f_):
                return True
            if f_[0] == "call" and f_[1] == "std::ops::Add::add" and len(f_[2]) == 2:
                for x, y in ((f_[2][0], f_[2][1]), (f_[2][1], f_[2][0])):
                    xs = [x] + list(_f11(prog, x, 2))
                    ys = [y] + list(_f11(prog, y, 2))
                    for y_ in ys:
                        if y_[0] != "payload":
                            continue
                        c_ = shared.unwrap_payload(y_)
                        if c_[0] == "call" and c_[1] == "cosmwasm_std::Uint128::checked_sub" and is_reward(prog, c_[2][0]) and any(norm(x_) == norm(c_[2][1]) for x_ in xs):
                            return True
        return False

    # R2
    for op, alts in shared.state_writes(prog, h, env):
        good_n = good_r = bool(alts)
        for base, d in alts or []:
            v = d.get(("total_native_token",))
            if v is None or not (delta_op(v)[0] == "+=" and is_net(delta_op(v)[1])):
                good_n = False
            r = d.get(("total_reward_amount",))
            if r is None or not (delta_op(r)[0] == "+=" and is_full_reward(delta_op(r)[1]) and loaded_field(prog, r[1], "state", ["total_reward_amount"], CRATE)):
                good_r = False
            extra = set(d) - {("total_native_token",), ("total_reward_amount",), ("total_fees",)}
            if extra:
                good_n = False
        R.ob("C11.R2", "ReceiveRewards:restaked=reward-fee", good_n, "total_native_token is not increased by Ok(checked_sub(reward, fee)) on every path", loc=op["loc"], fn=hk)
        R.ob("C11.R2", "ReceiveRewards:reward-counter-full", good_r, "total_reward_amount is not increased by the full reward on every path", loc=op["loc"], fn=hk)
    Gs = Guard("fee<=reward", subject=lambda s: s[0] == "call" and s[1] == "cosmwasm_std::Uint128::checked_sub" and is_reward(prog, s[2][0]) and is_fee(prog, s[2][1]))
    found = []
    ok, off = guarded(h, Gs, prog, env.depth, found)
    R.ob("C11.R2", "ReceiveRewards:fee>reward-is-error", ok, "a success exit is reachable when checked_sub(reward, fee) failed: %s" % (off,), fn=hk, found=found)
    # R3
    G3 = Guard("lst>0", boolean=lambda t: (False if (t[0] == "call" and t[1] == "cosmwasm_std::Uint128::is_zero" and loaded_field(prog, t[2][0], "state", ["total_liquid_stake_token"], CRATE)) else None))
    found = []
    ok, off = guarded(h, G3, prog, env.depth, found)
    R.ob("C11.R3", "ReceiveRewards:refused-without-lst", ok, "rewards are accepted while no LST exists: %s" % (off,), fn=hk, found=found)
    # R4, R5
    C02.fee_worlds(R, env, prog, sites, "C11.R4")
    C02.fee_withdraw(R, env, prog, sites, "C11.R5")
    found = []
    dctx, table = handlers(prog, CRATE)
    ok, off = arm_guarded(prog, dctx, table["FeeWithdraw"], admin_guard(prog, CRATE), env.depth, found)
    R.ob("C11.R5", "FeeWithdraw:admin", ok, "FeeWithdraw succeeds without assert_admin", fn=sites["FeeWithdraw"].body.key, found=found)
    # R6
    ch, nops = shared.field_change_sites(prog, env, CRATE, "state", ["total_fees"], sites)
    for site, op in ch.get("total_fees", {}).items():
        R.ob("C11.R6", "total_fees-writer:" + site, site in FEE_WRITERS, "State.total_fees may change from %s; reviewed writers %s" % (site, sorted(FEE_WRITERS)), loc=op["loc"], fn=op["fn"])
    R.floor("C11.R6", "sites changing total_fees", len(ch.get("total_fees", {})), 4)
