"""C01 Staked-asset accounting is fully backed: inductive step by data-flow identity + writer closure."""
from .common import *
from . import shared
from .shared import same, agg_field
from engine.analysis import storage_ops_deep, must_pass, bool_world_edges

CRATE = "staking"
IBC_DENOM = ["protocol_chain_config", "ibc_token_denom"]
STAKER = ["native_chain_config", "staker_address"]
TNT_WRITERS = {
    "instantiate": ":= 0",
    "LiquidStake": "+= paid amount (and the ownerless-stake sweep)",
    "SubmitBatch": "-= amount set aside for the batch",
    "ReceiveRewards": "+= reward - fee",
    "ResumeContract": ":= admin-supplied value (manual override, outside the invariant)",
}


def staker_transfer(R, rule, site, prog, hctx, env, amount_pred, what):
    """exactly one MsgTransfer to native_chain_config.staker_address in the ibc denom whose amount
    satisfies amount_pred; on every success path and in the Response."""
    trs = shared.transfers(prog, hctx, env)
    hits = [t for t in trs if t["receiver"] is not None and loaded_field(prog, t["receiver"], "config", STAKER, CRATE)]
    R.call_sites += len(trs)
    R.ob(rule, site + ":one-transfer-to-staker", len(hits) == 1, "found %d IBC transfer(s) to the configured staker (of %d transfers)" % (len(hits), len(trs)), fn=hctx.body.key, loc=hits[0]["loc"] if hits else None)
    for t in hits:
        R.ob(rule, site + ":forwarded-amount", t["amount"] is not None and amount_pred(t["amount"]), "amount forwarded to the staker is %s, expected %s" % (fmt(t["amount"])[:160] if t["amount"] else None, what), fn=hctx.body.key, loc=t["loc"])
        R.ob(rule, site + ":forwarded-denom", t["denom"] is not None and loaded_field(prog, t["denom"], "config", IBC_DENOM, CRATE), "denom forwarded is %s, expected config.protocol_chain_config.ibc_token_denom" % (fmt(t["denom"])[:120] if t["denom"] else None), fn=hctx.body.key, loc=t["loc"])
        R.ob(rule, site + ":transfer-on-every-success-path", must_pass(hctx, t["root_bb"]), "a success exit is reachable without constructing the stake transfer", fn=hctx.body.key, loc=t["loc"])
        R.ob(rule, site + ":transfer-in-response", shared.response_contains_call_at(hctx, t["root_bb"]), "the transfer sub-message does not reach the Response of every success exit", fn=hctx.body.key, loc=t["loc"])
    return hits


def run(R, env):
    prog = env.prog("default")
    R.rule("C01.R1", "LiquidStake: the operand of total_native_token += and the amount of the IBC transfer to the configured staker (ibc denom) are both the paid amount (must_pay result); the transfer is on every success path and in the Response")
    R.rule("C01.R2", "ReceiveRewards: total_native_token += X and the transfer to the staker carries X, X = Ok(checked_sub(reward, fee)); reward is the ibc-denom coin of info.funds")
    R.rule("C01.R3", "SubmitBatch: the value subtracted from total_native_token and the value stored as the pending batch's expected_native_unstaked are the same unbond computation")
    R.rule("C01.R4", "sweep: the only other delta is total_fees += total_native_token; total_native_token := 0, confined to the region total_liquid_stake_token.is_zero() && !total_native_token.is_zero()")
    R.rule("C01.R5", "State.total_native_token changes only from {instantiate, LiquidStake, SubmitBatch, ReceiveRewards, ResumeContract}; recover, reply, sudo, Withdraw, FeeWithdraw and migrations never change it")
    R.rule("C01.R6", "value refunded by a failed or timed-out transfer is re-sent only by a recovery that selects exactly the refundable packets of the requested receiver, sums what it removes and goes through the tracked gate; ack / timeout callbacks only change the status of the contract's own packets (rule bodies of C07.R4-R8)")
    R.assume("history-level equality follows by induction from these per-transition identities, C07's packet tracking and no use of ResumeContract's manual override; it is not itself decided")
    dctx, table = handlers(prog, CRATE)
    sites = shared.site_contexts(prog, CRATE, env)

    # ------------------------------------------------------------------ R1 + R4
    if "LiquidStake" in sites:
        h = sites["LiquidStake"]
        hk = h.body.key
        paid = lambda t: shared.is_paid(prog, t, IBC_DENOM)
        staker_transfer(R, "C01.R1", "LiquidStake", prog, h, env, paid, "the paid amount (must_pay(info, ibc_token_denom))")
        ws = shared.state_writes(prog, h, env)
        R.floor("C01.R1", "STATE writes in LiquidStake", len(ws), 1)
        for op, alts in ws:
            good = alts is not None and len(alts) > 0
            why = ""
            n_sweep = 0
            for base, d in alts or []:
                if not shared.is_stored_base(prog, base, "state", CRATE):
                    good, why = False, "base is not the loaded state"
                    continue
                v = d.get(("total_native_token",))
                if v is None:
                    good, why = False, "total_native_token not updated on some path"
                    continue
                opk, operand = delta_op(v)
                if not (opk == "+=" and paid(operand)):
                    good, why = False, "total_native_token %s %s" % (opk, fmt(operand)[:120])
                # what is the value before the += ?  either the loaded value or zero (sweep)
                prev = v[1]
                for a in (prev[1] if prev[0] == "phi" else (prev,)):
                    if loaded_field(prog, a, "state", ["total_native_token"], CRATE):
                        continue
                    if a[0] == "call" and a[1] == "cosmwasm_std::Uint128::zero":
                        n_sweep += 1
                        continue
                    good, why = False, "total_native_token is based on %s" % fmt(a)[:120]
                extra = set(d) - {("total_native_token",), ("total_liquid_stake_token",), ("total_fees",)}
                if extra:
                    good, why = False, "unexpected fields written: %s" % sorted(extra)
            R.ob("C01.R1", "LiquidStake:state-delta", good, "state saved by LiquidStake: " + why, loc=op["loc"], fn=hk)
            R.ob("C01.R1", "LiquidStake:save-on-every-success-path", must_pass(h, op["root_bb"]), "a success exit is reachable without saving the state", loc=op["loc"], fn=hk)
            # R4: the sweep alternative exists, moves exactly total_native_token into total_fees, and is confined
            sweep_ok = False
            for base, d in alts or []:
                f = d.get(("total_fees",))
                if f is None:
                    continue
                opk, operand = delta_op(f)
                if opk == "+=" and loaded_field(prog, operand, "state", ["total_native_token"], CRATE) and loaded_field(prog, f[1], "state", ["total_fees"], CRATE):
                    sweep_ok = True
                else:
                    sweep_ok = False
                    break
            R.ob("C01.R4", "LiquidStake:sweep-moves-total-to-fees", sweep_ok, "the sweep alternative of the saved state is not `total_fees += total_native_token; total_native_token := 0` (%s)" % fmt(op["args"][2])[:200], loc=op["loc"], fn=hk)
            # confinement: in the world LST != 0, and in the world native == 0, no sweep delta
            for nm, fld, val in (("lst-nonzero", "total_liquid_stake_token", False), ("native-zero", "total_native_token", True)):
                pred = lambda t, fld=fld: t[0] == "call" and t[1] == "cosmwasm_std::Uint128::is_zero" and loaded_field(prog, t[2][0], "state", [fld], CRATE)
                rem, n = bool_world_edges(h, pred, val)
                R.worlds += 1
                w = h.with_removed(rem).settle()
                conf, moved = True, False
                for op2, alts2 in shared.state_writes(prog, w, env):
                    for base, d in alts2 or []:
                        if ("total_fees",) in d:
                            f2 = d[("total_fees",)]
                            opk2, operand2 = delta_op(f2)
                            if nm == "native-zero" and opk2 == "+=" and loaded_field(prog, operand2, "state", ["total_native_token"], CRATE):
                                # total_fees += total_native_token with total_native_token == 0: no change
                                continue
                            conf = False
                            moved = True
                conf = conf and (n >= 1 or nm == "native-zero")
                R.ob("C01.R4", "LiquidStake:sweep-confined:" + nm, conf, "total_fees is written by LiquidStake although %s (tests found: %d)" % (nm, n), loc=op["loc"], fn=hk)
    else:
        R.ob("C01.R1", "LiquidStake:dispatched", False, "no handler", fn="staking::contract::execute")

    # ------------------------------------------------------------------ R2
    if "ReceiveRewards" in sites:
        h = sites["ReceiveRewards"]
        hk = h.body.key

        def is_reward(t):
            return shared.is_reward(prog, t)

        def is_net0(t):
            if t[0] != "payload":
                return False
            c = shared.unwrap_payload(t)
            return c[0] == "call" and c[1] == "cosmwasm_std::Uint128::checked_sub" and is_reward(c[2][0]) and is_fee(c[2][1])

        def is_fee0(t):
            return t[0] == "call" and t[1] == "cosmwasm_std::Uint128::multiply_ratio" and any(is_reward(a) for a in t[2][1:])

        is_net, is_fee = shared.via_forms(prog, is_net0), shared.via_forms(prog, is_fee0)

        staker_transfer(R, "C01.R2", "ReceiveRewards", prog, h, env, is_net, "Ok(checked_sub(reward, fee))")
        ws = shared.state_writes(prog, h, env)
        R.floor("C01.R2", "STATE writes in ReceiveRewards", len(ws), 1)
        for op, alts in ws:
            good = bool(alts)
            why = ""
            for base, d in alts or []:
                v = d.get(("total_native_token",))
                if v is None or not shared.is_stored_base(prog, base, "state", CRATE):
                    good, why = False, "total_native_token not updated from the loaded state"
                    continue
                opk, operand = delta_op(v)
                if not (opk == "+=" and is_net(operand) and loaded_field(prog, v[1], "state", ["total_native_token"], CRATE)):
                    good, why = False, "total_native_token %s %s" % (opk, fmt(operand)[:160])
            R.ob("C01.R2", "ReceiveRewards:state-delta", good, "state saved by ReceiveRewards: " + why, loc=op["loc"], fn=hk)
            R.ob("C01.R2", "ReceiveRewards:save-on-every-success-path", must_pass(h, op["root_bb"]), "a success exit is reachable without saving the state", loc=op["loc"], fn=hk)
    else:
        R.ob("C01.R2", "ReceiveRewards:dispatched", False, "no handler", fn="staking::contract::execute")

    # ------------------------------------------------------------------ R3
    if "SubmitBatch" in sites:
        h = sites["SubmitBatch"]
        hk = h.body.key
        # judged in the world where the batch total is not zero; with a zero total an untouched state is the same value
        from .shared import is_pending_batch as _ipb
        h_nz, h_z = shared.zero_worlds(h, lambda t: t[0] == "field" and t[2] == "batch_total_liquid_stake" and _ipb(prog, t[1]))
        R.worlds += 2
        ws = shared.state_writes(prog, h_nz, env)
        R.floor("C01.R3", "STATE writes in SubmitBatch", len(ws), 1)
        subtracted = []
        zw = [(o_, [(b_, d_) for b_, d_ in (a_ or []) if ("total_native_token",) in d_]) for o_, a_ in shared.state_writes(prog, h_z, env)]
        for op, alts in ws + [(o_, a_) for o_, a_ in zw if a_]:
            good = bool(alts)
            why = ""
            for base, d in alts or []:
                v = d.get(("total_native_token",))
                if v is None or not shared.is_stored_base(prog, base, "state", CRATE):
                    good, why = False, "total_native_token not updated from the loaded state"
                    continue
                # := checked_sub(loaded, U).unwrap_or(..)  == "-= U"
                u_ = minus_operand(v, lambda b_: loaded_field(prog, b_, "state", ["total_native_token"], CRATE))
                if u_ is not None:
                    subtracted.append(u_)
                else:
                    good, why = False, "total_native_token := %s" % fmt(v)[:160]
            R.ob("C01.R3", "SubmitBatch:state-delta", good, "state saved by SubmitBatch: " + why, loc=op["loc"], fn=hk)
            R.ob("C01.R3", "SubmitBatch:save-on-every-success-path", must_pass(h, op["root_bb"]), "a success exit is reachable without saving the state", loc=op["loc"], fn=hk)
        # expected_native_unstaked stored in the batch
        stored = []
        for op in storage_ops_deep(prog, h_nz, env.depth):
            if op["kind"] == "w" and ns_of(prog, op["args"][0]) == "batches":
                hit_ = False
                for s in subterms(op["args"][-1]):
                    if s[0] == "upd" and s[2] == ("expected_native_unstaked",):
                        stored.append((op, s[3]))
                        hit_ = True
                if not hit_:
                    # struct-update syntax / update closure: the same field of the value written
                    for b_, d_ in shared.write_value_alternatives(prog, op, "batches") or []:
                        if ("expected_native_unstaked",) in d_:
                            stored.append((op, d_[("expected_native_unstaked",)]))
        R.floor("C01.R3", "expected_native_unstaked stored by SubmitBatch", len(stored), 1)
        for op, val in stored:
            v = val[3][0][2] if val[0] == "agg" and val[2] == "Some" else None
            good = v is not None and len(subtracted) >= 1 and all(same(v, s_) or shared.same_any(prog, v, s_, 3, op.get("assumptions", ())) for s_ in subtracted)
            R.ob("C01.R3", "SubmitBatch:set-aside==subtracted", good, "expected_native_unstaked := %s but total_native_token -= %s" % (fmt(val)[:140], [fmt(s_)[:140] for s_ in subtracted]), loc=op["loc"], fn=hk)
            R.ob("C01.R3", "SubmitBatch:batch-save-on-every-success-path", must_pass(h, op["root_bb"]), "a success exit is reachable without saving the submitted batch", loc=op["loc"], fn=hk)
    else:
        R.ob("C01.R3", "SubmitBatch:dispatched", False, "no handler", fn="staking::contract::execute")

    # ------------------------------------------------------------------ R6 (shared rule bodies)
    from engine.runner import Remap
    from . import C07
    R.rule("C01.R7", "what is accounted as forwarded was accepted by the transfer module: every transfer is a reply_on: Always sub-message of the single tracked gate, and the reply fails (rolling back the transaction that accounted it) unless the submission result is Ok with a decodable sequence, which it records as in flight (rule bodies of C07.R1 and C07.R3)")
    C07.run(Remap(R, {"C07.R4": "C01.R6", "C07.R5": "C01.R6", "C07.R6": "C01.R6", "C07.R7": "C01.R6", "C07.R8": "C01.R6", "C07.R1": "C01.R7", "C07.R3": "C01.R7"}), env)
    # ------------------------------------------------------------------ R5
    ch, nops = shared.field_change_sites(prog, env, CRATE, "state", ["total_native_token"], sites)
    R.floor("C01.R5", "STATE write sites inspected", nops, 8)
    for site, op in ch.get("total_native_token", {}).items():
        R.ob("C01.R5", "total_native_token-writer:" + site, site in TNT_WRITERS, "State.total_native_token may change from %s (%s); reviewed writers: %s" % (site, op["fn"], sorted(TNT_WRITERS)), loc=op["loc"], fn=op["fn"])
    R.floor("C01.R5", "sites changing total_native_token", len(ch.get("total_native_token", {})), 5)
