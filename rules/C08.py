"""C08 Authorization matrix of the staking contract (DESIGN.md section 6, C08)."""
from .common import *
from . import shared

CRATE = "staking"

ADMIN = ["AddValidator", "RemoveValidator", "TransferOwnership", "RevokeOwnershipTransfer", "UpdateConfig", "ResumeContract", "FeeWithdraw"]
CLASS = {
    **{v: "admin" for v in ADMIN},
    "RecoverPendingIbcTransfers": "admin-when-forced",
    "CircuitBreaker": "admin-or-monitor",
    "AcceptOwnership": "nominee",
    "ReceiveRewards": "hook:reward_collector_address",
    "ReceiveUnstakedTokens": "hook:staker_address",
    "Withdraw": "public-pays-caller-only",
    "LiquidStake": "public",
    "LiquidUnstake": "public",
    "SubmitBatch": "public",
}


def run(R, env):
    prog = env.prog("default")
    R.rule("C08.R0", "every ExecuteMsg variant is classified (admin / admin-when-forced / admin-or-monitor / nominee / hook account / public); an unclassified variant fails closed")
    R.rule("C08.R1", "admin class: no success exit of arm+handler is reachable once the Ok edge of Admin::assert_admin(ADMIN, deps, info.sender) is cut")
    R.rule("C08.R2", "forced recovery: in the world selected_packets=Some every success exit is behind assert_admin")
    R.rule("C08.R3", "CircuitBreaker: cutting {assert_admin Ok, any(monitor == info.sender) true} makes every success exit unreachable; monitors come from CONFIG")
    R.rule("C08.R4", "AcceptOwnership: Admin::set and every success exit are behind `pending_owner == info.sender`; the new admin is that nominee")
    R.rule("C08.R5", "hook accounts: every success exit is behind info.sender == derive(channel, native address of the variant's role, protocol prefix); a failed derivation is an error exit")
    R.rule("C08.R6", "ADMIN is written only by instantiate and AcceptOwnership")
    R.rule("C08.R7", "Withdraw pays only the caller: MsgSend.to_address and the request key are info.sender")
    R.rule("C08.R8", "`the nominated account` is well defined: nomination stores nominee + time lock, revocation clears both, acceptance consumes the nomination (rule bodies of C12.R1-R3 for the staking contract)")
    R.assume("an Err result discards every write and message of the transaction (CosmWasm), so refusal = no reachable success exit")

    dctx, table = handlers(prog, CRATE)
    variants = enum_variants(prog, "staking::msg::ExecuteMsg")
    R.floor("C08.R0", "ExecuteMsg variants", len(variants), 16)
    for v in variants:
        R.ob("C08.R0", "classified:" + v, v in CLASS, "variant has no authorization class in the reviewed table (new message needs a decision)", fn="staking::contract::execute")
        R.ob("C08.R0", "dispatched:" + v, v in table and table[v]["calls"], "variant has no handler call in the dispatcher", fn="staking::contract::execute")
    G = admin_guard(prog, CRATE)
    n_admin = 0
    for v in variants:
        if v not in table or not table[v]["calls"]:
            continue
        cls = CLASS.get(v)
        arm = table[v]
        hk = arm["handlers"][0]
        if cls == "admin":
            found = []
            ok, off = arm_guarded(prog, dctx, arm, G, env.depth, found)
            if not found and ok:
                # decided by evaluating the handler in the not-admin world (the test lives in a helper that returns a
                # bool / in an update closure): not vacuous as long as the handler can succeed at all
                from engine.analysis import success_exits as _se8
                found = [{"loc": None, "how": "world"}] if _se8(handler_ctx(prog, dctx, arm)) else []
            n_admin += 1 if found else 0
            R.ob("C08.R1", v, ok, "success exit reachable without passing assert_admin: %s" % (off,), loc=(off[0]["loc"] if off else (found[0]["loc"] if found else None)), fn=hk, found=found)
        elif cls == "admin-when-forced":
            shared.forced_recover_admin(R, env, prog, dctx, arm, "C08.R2")
        elif cls == "admin-or-monitor":
            hctx = handler_ctx(prog, dctx, arm)

            mon = lambda s_: any(loaded_field(prog, x, "config", ["monitors"], CRATE) for x in subterms(s_))

            def is_monitor_any(t):
                # info.sender is one of config.monitors, in any membership spelling
                m = membership(prog, t, mon, lambda e_: is_sender(e_))
                return m

            def is_admin_bool(t):
                # boolean spellings of the admin test: ADMIN.is_admin(deps, &info.sender)? / .unwrap_or(false) / assert_admin(..).is_ok()
                x = t
                if x[0] == "call" and x[1] in ("std::result::Result::unwrap_or",) and len(x[2]) == 2 and x[2][1] == ("const", "bool", False):
                    x = x[2][0]
                if x[0] == "payload":
                    x = shared.unwrap_payload(x)
                if x[0] == "call" and x[1] == "cw_controllers::Admin::is_admin" and ns_of(prog, x[2][0]) == "admin" and item_crate(x[2][0]) == CRATE and len(x[2]) >= 3 and is_sender(x[2][2]):
                    return True
                return None

            def either(t):
                r = is_admin_bool(t)
                return r if r is not None else is_monitor_any(t)

            G3 = Guard("admin-or-monitor", subject=G.subject, boolean=either)
            found = []
            ok, off = arm_guarded(prog, dctx, arm, G3, env.depth, found)
            R.ob("C08.R3", v, ok, "success exit reachable by a sender that is neither admin nor monitor: %s" % (off,), loc=off[0]["loc"] if off else None, fn=hk, found=found)
            # each alternative alone grants access (a monitor that is not the admin can halt, and the admin can)
            from engine.analysis import success_exits
            w_mon = hctx.assume((G.subject, ("ok", False)), (None, lambda t_: (False if is_admin_bool(t_) else None)), (None, lambda t_: (True if is_monitor_any(t_) is True else (False if is_monitor_any(t_) is False else None)))).settle()
            w_adm = hctx.assume((G.subject, ("ok", True)), (None, lambda t_: (True if is_admin_bool(t_) else None)), (None, lambda t_: (False if is_monitor_any(t_) is True else (True if is_monitor_any(t_) is False else None)))).settle()
            R.worlds += 2
            R.ob("C08.R3", v + ":both-alternatives", bool(success_exits(w_mon)) and bool(success_exits(w_adm)), "halting is not open to both the admin (%s) and a monitor that is not the admin (%s)" % (bool(success_exits(w_adm)), bool(success_exits(w_mon))), fn=hk)
        elif cls == "nominee":
            shared.accept_ownership(R, env, prog, CRATE, dctx, arm, "C08.R4")
        elif cls and cls.startswith("hook:"):
            shared.hook_sender(R, env, prog, dctx, arm, v, cls.split(":")[1], "C08.R5")
        elif cls == "public-pays-caller-only":
            shared.withdraw_pays_caller(R, env, prog, dctx, arm, "C08.R7")
    R.floor("C08.R1", "admin-guarded variants", n_admin, 7)
    shared.admin_writers(R, env, prog, CRATE, "C08.R6")
    from engine.runner import Remap
    from . import C12

    class _OnlyStaking(Remap):
        def ob(self, rule, instance, ok, detail="", loc=None, fn=None, found=None):
            if instance.startswith("treasury"):
                return bool(ok)
            return Remap.ob(self, rule, instance, ok, detail, loc, fn, found)

        def floor(self, rule, what, count, minimum):
            if what.startswith("treasury"):
                return None
            return Remap.floor(self, rule, what, count, minimum)

    C12.run(_OnlyStaking(R, {"C12.R1": "C08.R8", "C12.R2": "C08.R8", "C12.R3": "C08.R8"}), env)
