"""C09 Cross-chain sender authentication follows the ibc-hooks derivation (data-flow graph of the external specification)."""
from .common import *
from . import shared, C14
from .shared import agg_field
from engine.analysis import resolve_terms, aggregates

CRATE = "staking"
INTERMEDIARY = "ibc-wasm-hook-intermediary"  # osmosis x/ibc-hooks keeper: SenderPrefix


def hasher_updates(t):
    """t = finalize(<hasher>) of a SHA-256 hasher: ordered list of update operands, or None.
    accepted idioms (enumerated): Default::default / Digest::new + update* + finalize; chain_update; Digest::digest(x)."""
    if t[0] == "call" and t[1] == "sha2::Digest::digest":
        return [t[2][0]], meta_of(t)
    if not (t[0] == "call" and t[1] in ("sha2::Digest::finalize", "sha2::Digest::finalize_reset")):
        return None
    ups = []
    h = t[2][0]
    while True:
        if h[0] == "mut" and h[2] == "sha2::Digest::update":
            ups.append(h[3][0])
            h = h[1]
        elif h[0] == "call" and h[1] == "sha2::Digest::chain_update":
            ups.append(h[2][1])
            h = h[2][0]
        elif h[0] == "call" and h[1] in ("std::default::Default::default", "sha2::Digest::new") and not h[2]:
            break
        elif h[0] == "call" and h[1] == "sha2::Digest::new_with_prefix" and len(h[2]) == 1:
            ups.append(h[2][0])  # Sha256::new_with_prefix(x) is new() + update(x)
            break
        elif h[0] == "call" and h[1].endswith("Iterator::fold") and len(h[2]) == 3 and h[2][2][0] == "closure":
            # chunks.into_iter().fold(hasher, |h, chunk| h.chain_update(chunk)) over a literal list of chunks
            src = h[2][0]
            while src[0] == "call" and src[1].split("::")[-1] in ("into_iter", "iter") and src[2]:
                src = src[2][0]
            import engine.mir as _m
            res = closure_result(_m.CURRENT, h[2][2], params={2: ("acc",), 3: ("chunk",)}) if _m.CURRENT is not None else None
            step_ok = res is not None and ((res[0] == "call" and res[1] == "sha2::Digest::chain_update" and res[2][0] == ("acc",) and norm(res[2][1]) == ("chunk",)) or (res[0] == "mut" and res[2] == "sha2::Digest::update" and res[1] == ("acc",) and norm(res[3][0]) == ("chunk",)))
            if src[0] != "array" or not step_ok:
                return None
            ups.extend(reversed(list(src[1])))
            h = h[2][1]
        else:
            return None
    return list(reversed(ups)), meta_of(t)


def meta_of(t):
    return t[3][1] if len(t) > 3 and t[3] and t[3][0] == "meta" else ""


def run(R, env):
    prog = env.prog("default")
    R.rule("C09.R1", "derivation = bech32::encode(prefix parameter, to_base32(H2), Variant::Bech32); H2 = SHA-256 finalize of a hasher updated with exactly [H1, K] in this order; H1 = SHA-256 of exactly the bytes of \"ibc-wasm-hook-intermediary\"; K = bytes of format!(\"{channel}/{sender}\") with the channel first")
    R.rule("C09.R2", "ReceiveRewards / ReceiveUnstakedTokens compare info.sender with derive(configured channel, reward collector | staker, protocol prefix) (C08.R5)")
    R.rule("C09.R3", "the channel stored in a config is produced only by a validate whose Ok exits are behind starts_with(\"channel-\") and parse::<u64>(suffix).is_ok(): no '/' can enter the left component")
    R.assume("collision-freeness is SHA-256's; bech32 checksum/charset are the library's; parse::<u64> accepting a leading '+' is not decided")
    dctx, table = handlers(prog, CRATE)
    derivs = set()
    # the derivation functions actually used by the two acceptance sites
    for v, role in (("ReceiveRewards", "reward_collector_address"), ("ReceiveUnstakedTokens", "staker_address")):
        if v not in table or not table[v]["calls"]:
            R.ob("C09.R2", v + ":dispatched", False, "no handler", fn="staking::contract::execute")
            continue
        shared.hook_sender(R, env, prog, dctx, table[v], v, role, "C09.R2")
        h = handler_ctx(prog, dctx, table[v])
        # the derivation proper: the function(s) reachable from the handler that bech32-encode a SHA-256 digest themselves
        from engine.analysis import reachable_bodies
        for k_ in reachable_bodies(prog, [h.body.key]):
            b_ = prog.bodies[k_]
            if b_.kind == "fn" and b_.nargs == 3 and any((call_name(t_) or "").startswith("bech32::encode") for _, t_ in b_.calls()) and shared.is_derivation_fn(prog, k_):
                derivs.add(k_)
    R.floor("C09.R1", "derivation functions used by the acceptance sites", len(derivs), 1)
    for dk in sorted(derivs):
        b = prog.body(dk)
        P = lambda i: ("param", i)
        rt = Terms(b, params={1: ("chan",), 2: ("sender",), 3: ("prefix",)}).return_term()
        rt = resolve_terms(prog, rt, 3)
        good = rt[0] == "call" and rt[1].startswith("bech32::encode") and len(rt[2]) == 3
        R.ob("C09.R1", "output-is-bech32-encode", good, "derivation returns %s" % fmt(rt)[:200], fn=dk)
        if not good:
            continue
        hrp, data, variant = rt[2]
        R.ob("C09.R1", "prefix-is-the-parameter", hrp == ("prefix",), "human readable part = %s; expected the prefix argument" % fmt(hrp)[:80], fn=dk)
        R.ob("C09.R1", "variant-is-Bech32", variant[0] == "agg" and variant[1].endswith("bech32::Variant") and variant[2] == "Bech32", "variant = %s (the chain uses classic bech32, not bech32m)" % fmt(variant), fn=dk)
        okd = data[0] == "call" and data[1].endswith("ToBase32::to_base32")
        R.ob("C09.R1", "data-is-to_base32-of-the-hash", okd, "data = %s" % fmt(data)[:160], fn=dk)
        if not okd:
            continue
        h2 = hasher_updates(data[2][0])
        R.ob("C09.R1", "outer-hash-shape", h2 is not None and "Sha256" in h2[1], "outer hash is %s (accepted idioms: Sha256 default/new + update* + finalize, chain_update, digest)" % fmt(data[2][0])[:200], fn=dk)
        if h2 is None:
            continue
        ups, _ = h2
        if len(ups) == 4 and ups[1] == ("chan",) and const_str(ups[2]) == "/" and ups[3] == ("sender",):
            # the key streamed in three chunks: hashing is over the concatenation, the same bytes as "{channel}/{sender}"
            ups = [ups[0], ("call", "core::slice::concat", (("array", tuple(ups[1:])),))]
        R.ob("C09.R1", "outer-hash-two-updates", len(ups) == 2, "outer hasher is updated with %d operands: %s" % (len(ups), [fmt(u)[:80] for u in ups]), fn=dk)
        if len(ups) != 2:
            continue
        h1 = hasher_updates(ups[0])
        okh1 = h1 is not None and "Sha256" in h1[1] and len(h1[0]) == 1
        const = None
        if okh1:
            c = h1[0][0]
            if c[0] == "item":
                ci = prog.const_init(c[1])
                const = ci[2] if ci and ci[0] == "const" and ci[1] == "str" else None
            elif c[0] == "const" and c[1] == "str":
                const = c[2]
        R.ob("C09.R1", "first-update-is-SHA256(type-prefix)", okh1 and const == INTERMEDIARY, "first operand of the outer hash = %s with constant %r; expected SHA-256(\"%s\") FIRST (address.Hash(typ, key) = sha256(sha256(typ) || key))" % (fmt(ups[0])[:160], const, INTERMEDIARY), fn=dk)
        K = ups[1]
        fa = [s_[2][0] for s_ in subterms(K) if s_[0] == "call" and s_[1].endswith("Argument::new_display")]
        # the format template of the key: in the derivation function or in a local helper it calls
        from engine.analysis import reachable_bodies as _rb
        spans = [(prog.bodies[k_].span["file"], prog.bodies[k_].span["line"]) for k_ in _rb(prog, [dk]) if prog.bodies[k_].crate == CRATE]
        fl = [f for f in prog.formats if f["crate"] == CRATE and any(f["file"] == fi and ln <= f["line"] <= ln + 25 for fi, ln in spans) and any(p.get("lit") == "/" for p in f["pieces"])]
        pieces = [p.get("lit", "{%s}" % p.get("arg")) for p in fl[0]["pieces"]] if len(fl) == 1 else None
        okk = K[0] == "call" and K[1] == "std::fmt::format" and fa == [("chan",), ("sender",)] and pieces == ["{0}", "/", "{1}"]
        if not okk:
            # byte-level spelling: [channel bytes, b"/", sender bytes].concat()
            for s_ in subterms(K):
                if s_[0] == "call" and s_[1].endswith("slice::concat") and s_[2] and s_[2][0][0] == "array":
                    segs = [("{0}" if e_ == ("chan",) else "{1}" if e_ == ("sender",) else const_str(e_)) for e_ in s_[2][0][1]]
                    if segs == ["{0}", "/", "{1}"] and norm(K) == norm(s_):
                        okk = True
                    pieces, fa = segs, []
        R.ob("C09.R1", "key-is-channel/sender", okk, "second operand = format template %s over arguments %s; expected \"{channel}/{sender}\"" % (pieces, [fmt(a) for a in fa]), fn=dk)
    # ------------------------------------------------------------ R3
    ctors = []
    for b in prog.fn_bodies(CRATE):
        if "::migrations::" in b.key:
            continue
        for bi, si, t in aggregates(Ctx(b), lambda adt, var: adt == "staking::state::ProtocolChainConfig"):
            ctors.append((b, t))
    R.ob("C09.R3", "one-constructor", len(ctors) == 1, "ProtocolChainConfig constructed (outside migrations) in %s" % [b.key for b, _ in ctors], fn="staking::state::ProtocolChainConfig")
    for b, t in ctors:
        v = agg_field(t, "ibc_channel_id")
        raw = v is not None and v[0] == "field" and v[2] == "ibc_channel_id" and v[1][0] == "param"
        hb = None
        if not raw and v is not None and v[0] == "payload":
            # a dedicated channel validator applied to the input field, returning its input
            hc = shared.unwrap_payload(v)
            hb = shared._body_of_call(prog, hc) if hc[0] == "call" else None
            if not (hb is not None and len(hc[2]) == 1 and hc[2][0][0] == "field" and hc[2][0][2] == "ibc_channel_id" and hc[2][0][1][0] == "param"):
                hb = None
            if hb is not None:
                if not shared.returns_its_input(hb):
                    hb = None
        R.ob("C09.R3", "channel-copied-from-validated-input", raw or hb is not None, "ibc_channel_id <- %s" % fmt(v or ("none",))[:100], fn=b.key)
        if hb is not None:
            C14.channel_checks(R, prog, hb, "C09.R3", src=lambda x: x[0] == "param" and x[1] == 1)
        else:
            C14.channel_checks(R, prog, b, "C09.R3")
