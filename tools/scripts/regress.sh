#!/bin/bash
# Full regression of the checks' behaviour on modified trees (scratch copies, static analysis only):
#  1. every negative control must FIRE on its property            (mutants/defs.py)
#  2. every equivalence control / benign refactoring must be SILENT (mutants/equiv.py, mutants/equiv_patches)
#  3. every seeded change must FIRE on its own property            (seeded/*/patch.diff)
# usage: tools/scripts/regress.sh [-j N]
cd "$(dirname "$0")/../.."
J=${2:-8}
echo "== controls"; python3 tools/scripts/mutate.py --all -j $J | grep -v WARNING | awk '{print $1,$2,$3}' | sort | uniq -c | awk '$4!="fired"{print "NOT-FIRED", $0}'
echo "== equivalents"; python3 tools/scripts/mutate.py --equiv -j $J | grep -v WARNING | awk '$3!="silent"{print "NOT-SILENT", $1,$2,$3,$5}'
echo "== seeded"; for d in seeded/C*/; do id=$(basename $d); p=${id%%-*}; python3 tools/scripts/mutate.py $d/patch.diff $p | grep -v WARNING | awk '$3!="fired"{print "NOT-FIRED", $1,$2,$3}'; done
echo "== done"
