"""Recognisers shared by the rule modules.

Everything is keyed by names that are part of the contracts' external interface or storage
schema (entry points, message variants, storage namespaces, serialized field names) or by
resolved library callees — never by line numbers, local helper names or source text.
"""
from engine.mir import Terms, subterms, fmt, norm, call_name, strip_generics
from engine.analysis import (
    Ctx,
    Guard,
    guarded,
    pass_edges,
    exits,
    dispatch_table,
    storage_ops,
    storage_item_of,
    reachable_bodies,
    call_sites,
    world_edges,
    variant_world_edges,
    bool_world_edges,
    result_test,
    bool_test,
)

EQ = {"std::cmp::PartialEq::eq": True, "std::cmp::PartialEq::ne": False}


# ------------------------------------------------------------------ storage


def ns_of(prog, term):
    """storage namespace string of a receiver term ('config', 'state', 'admin', 'batches', ...)."""
    it = storage_item_of(term)
    if it is None:
        return None
    if it in prog.consts:
        return prog.storage_namespace(it)
    b = prog.body(it)
    if b is not None:
        rt = Terms(b).return_term()
        for s in subterms(rt):
            if s[0] == "call" and s[1].endswith("::new"):
                for a in s[2]:
                    if a[0] == "const" and a[1] == "str":
                        return a[2]
    return None


def item_crate(term):
    it = storage_item_of(term)
    return it.split("::")[0] if it else None


def is_load(prog, t, ns, crate=None):
    """t is the Ok payload of `<ITEM ns>.load(storage)`."""
    if t[0] == "payload":
        t = t[1]
    if t[0] == "trybranch":
        t = t[1]
    if t[0] != "call" or not t[1].startswith("cw_storage_plus::") or t[1].split("::")[-1] not in ("load", "may_load"):
        return False
    if ns_of(prog, t[2][0]) != ns:
        return False
    if crate and item_crate(t[2][0]) != crate:
        return False
    return True


def loaded_field(prog, t, ns, path, crate=None):
    """t == <ITEM ns>.load()?.a.b.c (path = ['a','b','c'])."""
    for name in reversed(path):
        if t[0] != "field" or t[2] != name:
            return False
        t = t[1]
    return t[0] == "payload" and is_load(prog, t, ns, crate)


def field_path(t):
    """(base, [names]) peeling ('field', base, name) wrappers."""
    names = []
    while t[0] == "field":
        names.append(t[2])
        t = t[1]
    return t, list(reversed(names))


def is_param_of_type(t, tyfrag):
    return t[0] == "param" and len(t) > 3 and tyfrag in (t[3] or "")


def is_sender(t):
    """info.sender of the MessageInfo parameter (through value-preserving conversions)."""
    return t[0] == "field" and t[2] == "sender" and is_param_of_type(t[1], "MessageInfo")


def is_contract_addr(t):
    """env.contract.address"""
    base, path = field_path(t)
    return path == ["contract", "address"] and is_param_of_type(base, "Env")


def is_block_seconds(t):
    """env.block.time.seconds()"""
    if t[0] == "call" and t[1] == "cosmwasm_std::Timestamp::seconds":
        base, path = field_path(t[2][0])
        return path == ["block", "time"] and is_param_of_type(base, "Env")
    return False


def is_block_nanos(t):
    if t[0] == "call" and t[1] == "cosmwasm_std::Timestamp::nanos":
        base, path = field_path(t[2][0])
        return path == ["block", "time"] and is_param_of_type(base, "Env")
    return False


# ------------------------------------------------------------------ closures


def closure_result(prog, cterm, params=None):
    """return term of a closure given as ('closure', key, captures) with parameter bindings
    (closure params start at local 2)."""
    if cterm[0] != "closure":
        return None
    b = prog.body(cterm[1])
    if b is None:
        return None
    caps = {n: v for _, n, v in cterm[2]}
    return Terms(b, captures=caps, params=params).return_term()


def closure_ctx(prog, cterm, params=None):
    if cterm[0] != "closure":
        return None
    b = prog.body(cterm[1])
    if b is None:
        return None
    caps = {n: v for _, n, v in cterm[2]}
    return Ctx(b, params=params, captures=caps)


# ------------------------------------------------------------------ guards


def admin_guard(prog, crate):
    def subj(t):
        return (
            t[0] == "call"
            and t[1] == "cw_controllers::Admin::assert_admin"
            and ns_of(prog, t[2][0]) == "admin"
            and item_crate(t[2][0]) == crate
            and len(t[2]) >= 3
            and is_sender(t[2][2])
        )

    return Guard("admin", subject=subj)


def handlers(prog, crate, entry="execute", enum="ExecuteMsg"):
    """variant -> (handler body key, arm info); plus the dispatcher ctx."""
    r = dispatch_table(prog, "%s::contract::%s" % (crate, entry), enum)
    if r is None:
        return None, {}
    ctx, table = r
    out = {}
    for v, e in table.items():
        hs = [t.get("rkey") for _, t in e["handler"]]
        out[v] = {"handlers": hs, "entry": e["entry"], "switch": e["switch"], "calls": e["handler"]}
    return ctx, out


def enum_variants(prog, path):
    a = prog.adts.get(path)
    if not a:
        return []
    return [v["name"] for v in a["variants"]]


def arm_guarded(prog, dctx, arm, guard, depth, found):
    """is variant `arm` (dispatcher arm + handler) behind `guard`?  Guards placed in the
    dispatcher arm count for the handler they precede."""
    # 1. in the dispatcher: cut pass edges, is the handler call still reachable?
    edges = pass_edges(dctx, guard, prog, depth, found)
    reach = dctx.body.reachable(dctx.removed | edges)
    offenders = []
    for bb, t in arm["calls"]:
        if bb not in reach:
            continue
        hb = prog.body(t.get("rkey")) if t.get("rkey") else None
        if hb is None:
            offenders.append({"fn": dctx.body.key, "loc": dctx.body.loc(bb), "kind": "unresolved handler"})
            continue
        idx = len(dctx.body.blocks[bb]["stmts"])
        params = {i + 1: dctx.T.operand(a, bb, idx) for i, a in enumerate(t["args"])}
        ok, off = guarded(Ctx(hb, params=params), guard, prog, depth, found)
        if not ok:
            offenders.append(off)
    return (not offenders), offenders


def handler_ctx(prog, dctx, arm):
    """Ctx of the (single) handler of an arm with parameters bound to the dispatcher's terms."""
    bb, t = arm["calls"][0]
    hb = prog.body(t.get("rkey"))
    idx = len(dctx.body.blocks[bb]["stmts"])
    params = {i + 1: dctx.T.operand(a, bb, idx) for i, a in enumerate(t["args"])}
    return Ctx(hb, params=params)
