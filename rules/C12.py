"""C12 Two-step, seven-day time-locked admin handover, staking and treasury (same rule table)."""
from .common import *
from . import shared
from engine.analysis import storage_ops_deep, must_pass

SEVEN_DAYS = 604800
CRATES = ["staking", "treasury"]
OWNER_FIELD_WRITERS = {"instantiate", "TransferOwnership", "RevokeOwnershipTransfer", "AcceptOwnership"}


def is_min_time_secs(prog, crate):
    def f(t):
        return t[0] == "call" and t[1] == "cosmwasm_std::Timestamp::seconds" and t[2][0][0] == "payload" and loaded_field(prog, t[2][0][1], "state", ["owner_transfer_min_time"], crate)
    return f


def state_save_ops(prog, hctx, env, crate):
    return [op for op in storage_ops_deep(prog, hctx, env.depth) if op["kind"] == "w" and ns_of(prog, op["args"][0]) == "state" and item_crate(op["args"][0]) == crate]


def run(R, env):
    prog = env.prog("default")
    R.rule("C12.R1", "TransferOwnership: behind assert_admin; saves state with pending_owner := Some(addr_validate(new_owner)) and owner_transfer_min_time := Some(from_seconds(env.block.time.seconds() + 604800)); both on every success path")
    R.rule("C12.R2", "RevokeOwnershipTransfer: behind assert_admin; saves state with both fields := None")
    R.rule("C12.R3", "AcceptOwnership: rejects iff min_time.seconds() > now (=' and '<' continue) when a min time is stored; Admin::set(Some(nominee)) and every success exit behind nominee == info.sender; pending_owner := None saved on every success path; no success exit when no nominee is stored")
    R.rule("C12.R4", "ADMIN writers = {instantiate, AcceptOwnership}; pending_owner / owner_transfer_min_time change only from {instantiate, Transfer, Revoke, Accept}")
    R.rule("C12.R5", "siblings: the staking and the treasury contract discharge the same obligations (drift between the two copies is a violation of the drifting copy)")
    R.assume("cw_controllers::Admin holds a single address; Admin::set replaces it")
    R.assume("pending_owner = Some implies owner_transfer_min_time = Some: Transfer sets both, Revoke clears both, Accept clears the nominee (R1, R2, R4)")
    for crate in CRATES:
        dctx, table = handlers(prog, crate)
        G = admin_guard(prog, crate)
        # ---- R1
        arm = table.get("TransferOwnership")
        if not arm or not arm["calls"]:
            R.ob("C12.R1", crate + ":dispatched", False, "TransferOwnership not dispatched", fn=crate + "::contract::execute")
        else:
            hk = arm["handlers"][0]
            found = []
            ok, off = arm_guarded(prog, dctx, arm, G, env.depth, found)
            R.ob("C12.R1", crate + ":admin", ok, "nomination succeeds without assert_admin: %s" % (off,), fn=hk, found=found)
            hctx = handler_ctx(prog, dctx, arm)
            saves = state_save_ops(prog, hctx, env, crate)
            R.floor("C12.R1", crate + ": STATE.save in TransferOwnership", len(saves), 1)
            for op in saves:
                alts = shared.write_value_alternatives(prog, op, "state") or []
                good = bool(alts)
                why = ""
                for base, d in alts:
                    d = shared.effective_delta(prog, base, d, "state", crate)
                    if d is None or set(d) != {("pending_owner",), ("owner_transfer_min_time",)}:
                        good = False
                        why = "fields written: %s" % (sorted(".".join(p) for p in d) if d is not None else "not the loaded state")
                        continue
                    po = d[("pending_owner",)]
                    mt = fold(d[("owner_transfer_min_time",)])
                    po_ok = False
                    if po[0] == "agg" and po[2] == "Some":
                        pv = shared.unwrap_payload(po[3][0][2])
                        if po[3][0][2][0] == "payload" and pv[0] == "call" and pv[1].endswith("Api::addr_validate") and len(pv[2]) == 2:
                            a_ = pv[2][1]
                            po_ok = a_[0] == "param" or (a_[0] == "field" and a_[2] == "new_owner")
                    mt_ok = False
                    from engine.analysis import forms as _forms12
                    # (the deadline may be computed by a helper such as `claimable_from(&env)`: judged on its value)
                    for mt in [fold(f_) for f_ in _forms12(prog, d[("owner_transfer_min_time",)], 2, op.get("assumptions", ()))]:
                      if mt_ok:
                        break
                      if mt[0] == "agg" and mt[2] == "Some":
                        v = mt[3][0][2]
                        if v[0] == "call" and v[1] == "cosmwasm_std::Timestamp::from_seconds":
                            s_ = v[2][0]
                            if s_[0] == "bin" and s_[1] == "Add":
                                a, b = s_[2], s_[3]
                                for x, y in ((a, b), (b, a)):
                                    if is_block_seconds(x) and const_int(y) == SEVEN_DAYS:
                                        mt_ok = True
                                if not mt_ok:
                                    why = "min time = %s" % fmt(s_)[:160]
                    if not po_ok:
                        good = False
                        why = "pending_owner := %s" % fmt(po)[:160]
                    if not mt_ok:
                        good = False
                        why = why or "owner_transfer_min_time := %s" % fmt(mt)[:200]
                R.ob("C12.R1", crate + ":delta", good, "nomination does not store (Some(validated new_owner), Some(now + 604800 s)): " + why, loc=op["loc"], fn=hk)
                R.ob("C12.R1", crate + ":save-on-every-success-path", must_pass(hctx, op["root_bb"]), "a success exit is reachable without the state save", loc=op["loc"], fn=hk)
        # ---- R2
        arm = table.get("RevokeOwnershipTransfer")
        if not arm or not arm["calls"]:
            R.ob("C12.R2", crate + ":dispatched", False, "RevokeOwnershipTransfer not dispatched", fn=crate + "::contract::execute")
        else:
            hk = arm["handlers"][0]
            found = []
            ok, off = arm_guarded(prog, dctx, arm, G, env.depth, found)
            R.ob("C12.R2", crate + ":admin", ok, "revocation succeeds without assert_admin: %s" % (off,), fn=hk, found=found)
            hctx = handler_ctx(prog, dctx, arm)
            saves = state_save_ops(prog, hctx, env, crate)
            R.floor("C12.R2", crate + ": STATE.save in Revoke", len(saves), 1)
            none = lambda t: t[0] == "agg" and t[2] == "None"
            for op in saves:
                alts = [shared.effective_delta(prog, b, d, "state", crate) for b, d in shared.write_value_alternatives(prog, op, "state") or []]
                good = bool(alts) and all(d is not None and set(d) == {("pending_owner",), ("owner_transfer_min_time",)} and none(d[("pending_owner",)]) and none(d[("owner_transfer_min_time",)]) for d in alts)
                R.ob("C12.R2", crate + ":delta", good, "revocation stores %s, expected both fields := None" % fmt(op.get("value") or op["args"][2])[:200], loc=op["loc"], fn=hk)
                R.ob("C12.R2", crate + ":save-on-every-success-path", must_pass(hctx, op["root_bb"]), "a success exit is reachable without the state save", loc=op["loc"], fn=hk)
        # ---- R3
        arm = table.get("AcceptOwnership")
        if not arm or not arm["calls"]:
            R.ob("C12.R3", crate + ":dispatched", False, "AcceptOwnership not dispatched", fn=crate + "::contract::execute")
        else:
            hk = arm["handlers"][0]
            hctx = handler_ctx(prog, dctx, arm)
            shared.accept_ownership(R, env, prog, crate, dctx, arm, "C12.R3")
            # time lock, in the world where a min time is stored
            mt_pred = lambda t: loaded_field(prog, t, "state", ["owner_transfer_min_time"], crate)
            rem, n = world_edges(hctx, mt_pred, True)
            R.worlds += 2
            # (the world is also an assumption, so that a helper asking `state.locked_until(now)` is evaluated in it)
            w = hctx.assume_ok(mt_pred, True).with_removed(rem).settle()
            DG = deadline_guard("timelock", is_min_time_secs(prog, crate), is_block_seconds, {">"})
            found = []
            ok, off = guarded(w, DG, prog, env.depth, found)
            from engine.analysis import success_exits as _se12
            # not vacuous: with a min time stored (and nothing said about the clock) acceptance can still succeed
            R.ob("C12.R3", crate + ":timelock:world-not-vacuous", bool(_se12(w)), "no success exit in the world where a min time is stored: the time-lock rule would pass vacuously", fn=hk)
            R.ob("C12.R3", crate + ":timelock", ok, "with a min time stored, acceptance can succeed without `reject iff min_time.seconds() > now` (comparisons of these operands seen with truth sets %s); exit %s" % (DG.seen, off), loc=off["loc"] if off else (found[0]["loc"] if found else None), fn=hk, found=found)
            # nomination consumed
            saves = state_save_ops(prog, hctx, env, crate)
            R.floor("C12.R3", crate + ": STATE.save in Accept", len(saves), 1)
            for op in saves:
                alts = [shared.effective_delta(prog, b, d, "state", crate) for b, d in shared.write_value_alternatives(prog, op, "state") or []]
                good = bool(alts) and all(d is not None and set(d) == {("pending_owner",)} and d[("pending_owner",)][0] == "agg" and d[("pending_owner",)][2] == "None" for d in alts)
                R.ob("C12.R3", crate + ":consumes-nomination", good, "acceptance stores %s, expected loaded state with only pending_owner := None" % fmt(op.get("value") or op["args"][2])[:200], loc=op["loc"], fn=hk)
                R.ob("C12.R3", crate + ":consume-on-every-success-path", must_pass(hctx, op["root_bb"]), "acceptance can succeed without clearing the nominee", loc=op["loc"], fn=hk)
            # no nominee -> no success
            po_pred = lambda t: loaded_field(prog, t, "state", ["pending_owner"], crate)
            rem, n = variant_world_edges(hctx, po_pred, "None")
            rem_ok, n_ok = world_edges(hctx, po_pred, False)
            n = n or n_ok or sum(1 for _, atom in hctx.atoms() if atom[0] == "variant" and any(po_pred(s_) for s_ in subterms(atom[1])))
            w2 = hctx.with_removed(rem | rem_ok).settle()
            from engine.analysis import success_exits
            succ = success_exits(w2)
            # (not vacuous: the handler can succeed when nothing is assumed about the nominee)
            R.ob("C12.R3", crate + ":no-nominee-no-success", (n >= 1 or bool(success_exits(hctx))) and not succ, "with pending_owner = None a success exit is reachable (%s)" % [w2.body.loc(e["bb"]) for e in succ], fn=hk)
        # ---- R4
        shared.admin_writers(R, env, prog, crate, "C12.R4")
        sites = shared.site_contexts(prog, crate, env)
        ch, nops = shared.field_change_sites(prog, env, crate, "state", ["pending_owner", "owner_transfer_min_time"], sites)
        R.floor("C12.R4", crate + ": STATE write sites inspected", nops, 4)
        for f, ss in ch.items():
            for site, op in ss.items():
                R.ob("C12.R4", "%s:%s-writer:%s" % (crate, f, site), site in OWNER_FIELD_WRITERS, "State.%s may change from %s, not in the reviewed table %s" % (f, site, sorted(OWNER_FIELD_WRITERS)), loc=op["loc"], fn=op["fn"])
        R.floor("C12.R4", crate + ": sites changing pending_owner", len(ch.get("pending_owner", {})), 4)
