"""C17 Queries paginate completely and the per-user request index is consistent (the repository's own part)."""
from .common import *
from . import shared, C02
from .shared import agg_field, msg_field
from engine.analysis import storage_ops_deep, storage_ops, inline_walk, aggregates_deep

CRATE = "staking"
# query variant -> (storage namespace, filter expected)
PAGED = {"Batches": ("batches", "status"), "IbcQueue": ("inflight", None), "IbcReplyQueue": ("ibc_waiting_for_reply", None)}


def is_pager(prog, b):
    """role: a generic function that ranges over a Map parameter with a cursor turned into a Bound and a limit loop"""
    names = [call_name(t) or "" for _, t in b.calls()]
    takes_map = any("cw_storage_plus::Map<" in b.local_ty(i) for i in range(1, b.nargs + 1))
    loop_form = any(n.startswith("std::vec::Vec::push") for n in names) and any(n == "std::iter::Iterator::next" for n in names)
    chain_form = any(n == "std::iter::Iterator::collect" for n in names) and any(n == "std::iter::Iterator::take" for n in names)
    return b.kind == "fn" and takes_map and "cw_storage_plus::Map::range" in names and (loop_form or chain_form)


def iterator_chain(t):
    """for collect(take(filter(map(src)))) : (src, [(method, extra args)...]) from source to sink"""
    steps = []
    while t[0] == "call" and "Iterator::" in t[1] and t[2]:
        steps.append((t[1].split("::")[-1], t[2][1:]))
        t = t[2][0]
    return t, list(reversed(steps))


def f_msg_field(c, pred):
    """the term of the message field accepted by pred, as it appears in c (first occurrence)"""
    for bi, atom in c.atoms():
        for s_ in subterms(atom[1]):
            if pred(s_):
                return s_
    for bi, t, a in call_sites(c, lambda nm: True):
        for x in a:
            for s_ in subterms(x):
                if pred(s_):
                    return s_
    return ("none",)


def pipeline_pager(R, prog, c, pk, P, lim, filt_p, map_p):
    """the same obligations for the iterator-pipeline spelling:
    range(..) [.filter_map / .map]* .filter(<consults the filter argument>) .take(limit.unwrap_or(MAX)) .collect()"""
    from engine.analysis import ok_payload
    rt = ok_payload(c.T.return_term())
    src, steps = iterator_chain(rt)
    methods = [m for m, _ in steps]
    known = {"filter_map", "map", "filter", "take", "collect"}
    shape = bool(steps) and methods[-1] == "collect" and set(methods) <= known and src[0] == "call" and src[1] == "cw_storage_plus::Map::range" and P(map_p[0])(src[2][0])
    if not shape:
        R.info("C17.R1", "pagination helper %s is written as an iterator pipeline with steps %s that this rule does not model: loop-guard / count / filter obligations NOT decided" % (pk, methods))
        return
    takes = [(i, tuple(shared._head_resolved(prog, x_) for x_ in a)) for i, (m, a) in enumerate(steps) if m == "take"]
    R.ob("C17.R1", "loop-guard", len(takes) == 1 and len(takes[0][1]) == 1 and lim(takes[0][1][0]), "pipeline takes %s; expected exactly one take(limit.unwrap_or(u32::MAX))" % [fmt(a[0])[:80] for _, a in takes], fn=pk)
    fl = P(filt_p[0])
    filters = [(i, a) for i, (m, a) in enumerate(steps) if m == "filter" and a and a[0][0] == "closure" and any(fl(v) or any(fl(s_) for s_ in subterms(v)) for _, n, v in a[0][2])]
    ti = takes[0][0] if takes else len(steps)
    R.ob("C17.R1", "count-iff-push", all(m in ("filter", "filter_map", "map") for m in methods[:ti]) and methods[ti + 1:] == ["collect"], "steps %s: the items counted by take are not exactly the items collected" % methods, fn=pk)
    good = len(filters) == 1 and filters[0][0] < ti
    if good:
        # in the world filter = Some and filter(v) = false the closure answers false (item dropped before it is counted)
        clo = filters[0][1][0]
        cc = closure_ctx(prog, clo, params={2: ("elem",)})
        fcall = lambda t: t[0] == "call" and t[1].endswith("Fn::call") and any(fl(s_) for s_ in subterms(t[2][0]))
        from engine.analysis import resolve_terms as _rt4
        w = cc.assume_ok(lambda s_: fl(s_) or (s_[0] == "field" and fl(s_[1])), True).assume_bool(fcall, False).settle()
        rt_ = _rt4(prog, w.T.return_term(), 2, None, w.assumptions)
        if rt_[0] == "call":
            rt_ = w._assumed(rt_)  # (`filter.as_deref().is_none_or(|keep| keep(v))` & co.)
        good = rt_ == ("const", "bool", False) or (rt_[0] == "call" and fcall(rt_))
        w0 = cc.assume_ok(lambda s_: fl(s_) or (s_[0] == "field" and fl(s_[1])), False).settle()
        rt0_ = _rt4(prog, w0.T.return_term(), 2, None, w0.assumptions)
        if rt0_[0] == "call":
            rt0_ = w0._assumed(rt0_)
        good = good and rt0_ == ("const", "bool", True)
    R.ob("C17.R1", "filtered-items-skipped", good, "the filter argument is not applied before take (or does not drop exactly the rejected items): steps %s" % methods, fn=pk)
    R.worlds += 2


def run(R, env):
    prog = env.prog("default")
    R.rule("C17.R1", "pagination helper: ascending => range(min = start_after.map(Bound::exclusive), max = None), descending => the mirror image; the loop guard is `taken < limit.unwrap_or(u32::MAX)`; the counter is incremented in exactly the iterations that push an item; a filtered-out item neither counts nor is returned")
    R.rule("C17.R2", "pass-through: Batches -> (BATCHES, start_after, limit, Ascending, status filter `v.status == s` when supplied); IbcQueue -> (INFLIGHT_PACKETS, .., no filter); IbcReplyQueue -> (IBC_WAITING_FOR_REPLY, .., no filter); BatchesByIds keeps exactly the Ok loads of BATCHES by id")
    R.rule("C17.R3", "UnstakeRequests: prefix of the by_user index with the user argument, full range, ascending, keeping the Ok records; the index is (user, batch_id); the map is mutated only through the IndexedMap API")
    R.assume("completeness over arbitrary stores rests on cw-storage-plus range/index semantics (trusted); `every matching batch exactly once` is not decided as a statement about stores")
    pagers = [b for b in prog.fn_bodies(CRATE) if is_pager(prog, b)]
    if len(pagers) != 1:
        # pagination spread over several generic functions (bounds / scan / page helpers returning
        # iterators): the rules below model ONE helper that ranges, filters, counts and collects.
        from engine.analysis import reachable_bodies as _rb2
        spread = [b.key for b in prog.fn_bodies(CRATE) if b.kind == "fn" and any("cw_storage_plus::Map<" in b.local_ty(i) for i in range(1, b.nargs + 1)) and any(any((call_name(t_) or "") == "cw_storage_plus::Map::range" for _, t_ in prog.bodies[k_].calls()) for k_ in _rb2(prog, [b.key]))]
        if len(spread) >= 2:
            # what IS decided for a spread pagination: the page limit is never applied upstream of the filter
            # (`range.take(n).filter(p)` looks at the first n entries, not the first n matching ones: a short or
            # empty page although later entries match, so paging to the first short page misses them)
            from engine.analysis import resolve_terms as _rt17
            bad, nchains = [], 0
            for k_ in sorted(set(x for sk in spread for x in _rb2(prog, [sk]) if x in prog.bodies and prog.bodies[x].crate == CRATE)):
                cb_ = Ctx(prog.bodies[k_])
                for bi_, t_, a_ in call_sites(cb_, lambda nm: nm.endswith(("Iterator::collect", "Iterator::count", "Iterator::last", "Iterator::next"))):
                    term_ = _rt17(prog, cb_.T.call_term(t_, bi_), 3)

                    def walk(x, filt_downstream, depth=0):
                        if depth > 40:
                            return
                        if x[0] == "phi":
                            for y in x[1]:
                                walk(y, filt_downstream, depth + 1)
                        elif x[0] == "call" and "Iterator::" in x[1] and x[2]:
                            m_ = x[1].split("::")[-1]
                            if m_ == "take" and filt_downstream:
                                bad.append((k_, cb_.body.loc(bi_)))
                            walk(x[2][0], filt_downstream or m_ == "filter", depth + 1)

                    if any(s_[0] == "call" and s_[1] == "cw_storage_plus::Map::range" for s_ in subterms(term_)):
                        nchains += 1
                        walk(term_, False)
            R.ob("C17.R1", "limit-after-filter", not bad, "an iterator pipeline over a stored map truncates with take(..) BEFORE it filters (%s): a filtered page holds the matching ones among the first n entries, not the first n matching entries" % bad[:3], loc=bad[0][1] if bad else None, fn=bad[0][0] if bad else "staking::helpers")
            R.set_undecided(["C17.R1", "C17.R2"], "pagination is spread over several generic helpers (%s); only a single range-filter-count-collect helper is modelled" % ", ".join(k.split("::")[-1] for k in spread[:4]))
    R.ob("C17.R1", "one-pagination-helper", len(pagers) == 1, "pagination helpers found: %s" % [b.key for b in pagers], fn="staking::helpers")
    for b in pagers:
        c = Ctx(b)
        pk = b.key
        # identify parameters by type
        ptypes = {i: b.local_ty(i) for i in range(1, b.nargs + 1)}
        order_p = [i for i, t in ptypes.items() if t.endswith("Order")]
        limit_p = [i for i, t in ptypes.items() if "Option<u32>" in t]
        map_p = [i for i, t in ptypes.items() if "cw_storage_plus::Map" in t]
        start_p = [i for i, t in ptypes.items() if t.startswith("std::option::Option<K>") or (t.startswith("std::option::Option<") and i not in limit_p and "Box" not in t and "Fn" not in t)]
        filt_p = [i for i, t in ptypes.items() if "Fn(" in t]
        okp = len(order_p) == 1 and len(limit_p) == 1 and len(map_p) == 1 and len(start_p) == 1 and len(filt_p) == 1
        R.ob("C17.R1", "helper-signature", okp, "parameters by type: order %s limit %s map %s cursor %s filter %s" % (order_p, limit_p, map_p, start_p, filt_p), fn=pk)
        if not okp:
            continue
        P = lambda i: (lambda t: t[0] == "param" and t[1] == i)
        excl = lambda t: t[0] == "call" and t[1] == "std::option::Option::map" and P(start_p[0])(t[2][0]) and t[2][1][0] == "fn" and strip_generics(t[2][1][1]).endswith("cw_storage_plus::Bound::exclusive")
        none = lambda t: t[0] == "agg" and t[2] == "None"
        for variant, want in (("Ascending", (excl, none)), ("Descending", (none, excl))):
            rem, n = variant_world_edges(c, P(order_p[0]), variant)
            w = c.with_removed(rem).settle()
            R.worlds += 1
            rs = [o for o in storage_ops(w) if o["op"] == "range"]
            if len(rs) == 1:
                # the bounds are components of a helper's result that switches on the order (`Page::new(..).into_bounds(order)`):
                # the helper is inlined in the world where the order parameter is this variant
                asm_ = ((P(order_p[0]), ("variant", variant)),)
                a_ = list(rs[0]["args"])
                a_[2], a_[3] = shared._head_resolved(prog, a_[2], asm_), shared._head_resolved(prog, a_[3], asm_)
                if a_[2] != rs[0]["args"][2] or a_[3] != rs[0]["args"][3]:
                    rs = [dict(rs[0], args=a_)]
                    n = max(n, 1)
            good = n >= 1 and len(rs) == 1 and P(map_p[0])(rs[0]["args"][0]) and want[0](rs[0]["args"][2]) and want[1](rs[0]["args"][3]) and P(order_p[0])(rs[0]["args"][4])
            R.ob("C17.R1", "bounds:" + variant, good, "%s scan uses range(min=%s, max=%s); expected the cursor as an EXCLUSIVE bound on the %s side and no other bound" % (variant, fmt(rs[0]["args"][2])[:80] if rs else None, fmt(rs[0]["args"][3])[:80] if rs else None, "lower" if variant == "Ascending" else "upper"), fn=pk)
        # loop guard
        _lim0 = lambda t: t[0] == "call" and t[1] == "std::option::Option::unwrap_or" and P(limit_p[0])(t[2][0]) and t[2][1][0] == "item" and t[2][1][1].endswith("u32>::MAX")

        def lim(t):
            if _lim0(t):
                return True
            # limit.map_or(MAX, |l| l as usize): the same bound with the widening inside the closure
            if t[0] == "call" and t[1] == "std::option::Option::map_or" and len(t[2]) == 3 and P(limit_p[0])(t[2][0]) and t[2][1][0] == "item" and t[2][1][1].endswith(("u32>::MAX", "usize>::MAX", "u64>::MAX")):
                from engine.analysis import _map_or_alts
                al_ = _map_or_alts(t)
                if al_ is not None:
                    r_ = al_[1]
                    while r_[0] == "cast":
                        r_ = r_[1]
                    return r_ == ("payload", t[2][0], "Ok/Some")
            return False
        guards = []
        for bi, atom in c.atoms():
            if atom[0] == "bool":
                rel = cmp_rel(atom[1], lambda x: True, lim)
                if rel is not None:
                    guards.append((bi, atom, rel))
        names_ = [call_name(t) or "" for _, t in b.calls()]
        if not guards and "std::iter::Iterator::take" in names_:
            pipeline_pager(R, prog, c, pk, P, lim, filt_p, map_p)
            continue
        R.ob("C17.R1", "loop-guard", len(guards) == 1 and guards[0][2] in ({"<"}, {">", "="}), "limit comparisons: %s; expected exactly `taken < limit.unwrap_or(u32::MAX)` (or its complement with the branches exchanged)" % [sorted(g[2]) for g in guards], fn=pk)
        if len(guards) == 1:
            gbi, gatom, grel = guards[0]
            if grel == {">", "="}:
                gatom = (gatom[0], gatom[1], {True: gatom[2][False], False: gatom[2][True]})
            # continue-on-true leads to next(); false leaves the loop (no next reachable without coming back through the guard)
            nexts = [bi for bi, t, a in call_sites(c, lambda nm: nm == "std::iter::Iterator::next")]
            into = all(any(nb in b.reachable(c.removed, removed_blocks=frozenset([gbi]), start=tg) for nb in nexts) for tg in gatom[2][True])
            out = all(not any(nb in b.reachable(c.removed, removed_blocks=frozenset([gbi]), start=tg) for nb in nexts) for tg in gatom[2][False])
            R.ob("C17.R1", "loop-guard-polarity", bool(nexts) and into and out, "the loop does not continue exactly while taken < limit", fn=pk)
            # counter identity: the compared value is the local incremented by 1
            incs = []
            for bi in sorted(c.T.reach):
                for si, st in enumerate(b.blocks[bi]["stmts"]):
                    rv = st.get("rv") or {}
                    if rv.get("bin") in ("AddWithOverflow", "Add") and "k" in rv["b"] and rv["b"]["k"].get("int") == "1" and "u32" in rv["b"]["k"].get("ty", ""):
                        incs.append(bi)
            pushes = [bi for bi, t, a in call_sites(c, lambda nm: nm == "std::vec::Vec::push")]
            okpair = len(incs) == len(pushes) >= 1
            for ib in incs:
                if sum(1 for pb in pushes if C02.pair_in_iteration(c, ib, pb, gbi)) != 1:
                    okpair = False
            for pb in pushes:
                if sum(1 for ib in incs if C02.pair_in_iteration(c, ib, pb, gbi)) != 1:
                    okpair = False
            R.ob("C17.R1", "count-iff-push", okpair, "increments at blocks %s, pushes at blocks %s: the counter is not incremented in exactly the iterations that return an item" % (incs, pushes), fn=pk)
            # filter: in the world filter=Some and filter(v)=false neither push nor increment is reachable before the guard
            fl = P(filt_p[0])
            rem, n = world_edges(c, fl, True)
            w = c.with_removed(rem)
            fcall = lambda t: t[0] == "call" and t[1].endswith("Fn::call") and any(fl(s_) for s_ in subterms(t[2][0]))
            rem2, n2 = bool_world_edges(w, fcall, False)
            w2 = w.with_removed(rem2).settle()
            R.worlds += 1
            still = [bi for bi in pushes + incs if bi in w2.T.reach]
            R.ob("C17.R1", "filtered-items-skipped", n >= 1 and n2 >= 1 and not still, "with a filter that rejects the item, push/increment blocks %s are still reachable" % still, fn=pk)
            # pushed value is the element's value and the filter sees the same value
            pv = []
            for bi, t, a in call_sites(c, lambda nm: nm == "std::vec::Vec::push"):
                pv.append(a[1])
            same_v = all(v[0] == "field" and v[2] == "1" and v[1][0] == "payload" for v in pv)
            R.ob("C17.R1", "returns-the-scanned-values", bool(pv) and same_v and len(set(norm(v) for v in pv)) == 1, "pushed values %s" % [fmt(v)[:80] for v in pv], fn=pk)
    # ------------------------------------------------------------ R2
    q = prog.body("staking::contract::query")
    if q is None or not pagers:
        R.ob("C17.R2", "query-entry", False, "no query entry point / helper", fn="staking::contract::query")
        R.clear_undecided(["C17.R1", "C17.R2"])
        if q is not None:
            unstake_index_rules(R, env, prog)
        return
    pk = pagers[0].key
    qc = Ctx(q)
    seen = {}
    for c, path in inline_walk(prog, qc, 3):
        for bi, t, a in call_sites(c, lambda nm: True):
            if t.get("rkey") == pk:
                v = None
                for s_ in subterms(a):
                    if s_[0] == "variant" and s_[1][0] == "param":
                        v = s_[2]
                seen[v] = (c, bi, a)
    for v, (ns, filt) in PAGED.items():
        if v not in seen:
            R.ob("C17.R2", v + ":uses-helper", False, "query %s does not go through the pagination helper" % v, fn="staking::contract::query")
            continue
        c, bi, a = seen[v]
        good = ns_of(prog, a[1]) == ns and msg_field(a[2], v, "start_after") and msg_field(a[3], v, "limit") and a[4][0] == "agg" and a[4][2] == "Ascending"
        R.ob("C17.R2", v + ":arguments", good, "helper called with (%s, %s, %s, %s)" % (ns_of(prog, a[1]), fmt(a[2])[:50], fmt(a[3])[:50], fmt(a[4])[:40]), loc=c.body.loc(bi), fn=c.body.key)
        # every success path of the query function goes through the helper and returns its result
        from engine.analysis import must_pass
        through = must_pass(c, bi)
        callt = c.T.call_term(c.body.blocks[bi]["term"], bi)
        want = norm(("payload", callt, "Ok/Some"))
        # (a thin wrapper returns the helper's Result as it is: the tail call is the answer)
        carries = all(_all_paths_contain(term, want) or norm(term) == norm(callt) for _, term in success_terms(c))
        R.ob("C17.R2", v + ":every-answer-comes-from-the-helper", through and carries, "query %s has a success path that does not return the pagination helper's result (a shortcut answers some (cursor, limit, filter) triples differently)" % v, loc=c.body.loc(bi), fn=c.body.key)
        f = a[5]
        if filt is None:
            R.ob("C17.R2", v + ":no-filter", f[0] == "agg" and f[2] == "None", "filter = %s; expected None" % fmt(f)[:80], loc=c.body.loc(bi), fn=c.body.key)
        else:
            # world by world: filter = Some(|item| item.<filt> == wanted) when the message names a value, None otherwise
            from engine.analysis import resolve_terms
            sp = lambda t_, v=v, filt=filt: msg_field(t_, v, filt)
            okf = True
            for want_some in (True, False):
                cw = c.assume_ok(sp, want_some).settle()
                if bi not in cw.T.reach:
                    okf = False
                    continue
                blk = cw.body.blocks[bi]
                fw = cw.T.operand(blk["term"]["args"][5], bi, len(blk["stmts"]))
                fw = resolve_terms(prog, fw, 2, None, cw.assumptions)
                if not want_some:
                    okf = okf and fw[0] == "agg" and fw[2] == "None"
                    continue
                inner = None
                if fw[0] == "agg" and fw[2] == "Some":
                    for s_ in subterms(fw[3][0][2]):
                        if s_[0] == "closure":
                            inner = closure_result(prog, s_, params={2: ("item",)})
                            break
                okf = okf and inner is not None and inner[0] == "call" and inner[1] == "std::cmp::PartialEq::eq" and {norm(inner[2][0]), norm(inner[2][1])} == {norm(("field", ("item",), filt)), norm(("payload", f_msg_field(c, sp), "Ok/Some"))}
            R.ob("C17.R2", v + ":filter", okf, "filter = %s; expected %s.map(|s| |v| v.%s == s)" % (fmt(f)[:100], filt, filt), loc=c.body.loc(bi), fn=c.body.key)
        # the helper's result is what the response carries
    R.floor("C17.R2", "paged queries through the helper", len([v for v in PAGED if v in seen]), 3)
    # BatchesByIds
    found_ids = False
    for c, path in inline_walk(prog, qc, 3):
        for bi, t, a in call_sites(c, lambda nm: nm.endswith("Iterator::filter_map")):
            src = a[0]
            if src[0] == "call" and src[1].endswith("Iterator::map") and (msg_field(src[2][0], "BatchesByIds", "ids")):
                found_ids = True
                load = closure_result(prog, src[2][1], params={2: ("id",)})
                okl = load is not None and load[0] == "call" and load[1] == "cw_storage_plus::Map::load" and ns_of(prog, load[2][0]) == "batches" and load[2][2] == ("id",)
                keep = closure_ctx(prog, a[1], params={2: ("r",)})
                okk = keep is not None
                if okk:
                    isok = lambda x: x == ("r",)
                    r1, n1 = world_edges(keep, isok, True)
                    r0, n0 = world_edges(keep, isok, False)
                    t1 = keep.with_removed(r1).settle().T.return_term()
                    t0 = keep.with_removed(r0).settle().T.return_term()
                    okk = n1 >= 1 and t1 == ("agg", "std::option::Option", "Some", (("fld", "0", ("payload", ("r",), "Ok/Some")),)) and t0[0] == "agg" and t0[2] == "None"
                R.ob("C17.R2", "BatchesByIds:loads-each-id", okl, "per-id load = %s" % fmt(load or ("none",))[:100], loc=c.body.loc(bi), fn=c.body.key)
                R.ob("C17.R2", "BatchesByIds:keeps-exactly-the-Ok-loads", okk, "the filter does not map Ok(b) -> Some(b), Err -> None", loc=c.body.loc(bi), fn=c.body.key)
    if not found_ids:
        # spelling B: ids.filter_map(|id| BATCHES.load(storage, id).ok())
        for c, path in inline_walk(prog, qc, 3):
            for bi, t, a in call_sites(c, lambda nm: nm.endswith("Iterator::filter_map")):
                if msg_field(a[0], "BatchesByIds", "ids") and a[1][0] == "closure":
                    found_ids = True
                    res = closure_result(prog, a[1], params={2: ("id",)})
                    load = res[2][0] if res is not None and res[0] == "call" and res[1] == "std::result::Result::ok" else None
                    if load is None and res is not None and res[0] == "call" and res[1] == "std::option::Option::flatten" and res[2] and res[2][0][0] == "call" and res[2][0][1] == "std::result::Result::ok" and res[2][0][2][0][0] == "call" and res[2][0][2][0][1] == "cw_storage_plus::Map::may_load":
                        # BATCHES.may_load(storage, id).ok().flatten(): Some exactly for the ids that are stored and readable
                        ml_ = res[2][0][2][0]
                        load = ("call", "cw_storage_plus::Map::load", ml_[2]) + tuple(ml_[3:])
                    okl = load is not None and load[0] == "call" and load[1] == "cw_storage_plus::Map::load" and ns_of(prog, load[2][0]) == "batches" and load[2][2] == ("id",)
                    R.ob("C17.R2", "BatchesByIds:loads-each-id", okl, "per-id load = %s" % fmt(load or res or ("none",))[:100], loc=c.body.loc(bi), fn=c.body.key)
                    R.ob("C17.R2", "BatchesByIds:keeps-exactly-the-Ok-loads", okl, "the filter does not map Ok(b) -> Some(b), Err -> None", loc=c.body.loc(bi), fn=c.body.key)
    if not found_ids:
        # spelling D: ids.flat_map(|id| BATCHES.load(storage, id))  — a Result iterates over its Ok value, an Err yields nothing
        for c, path in inline_walk(prog, qc, 3):
            for bi, t, a in call_sites(c, lambda nm: nm.endswith(("Iterator::flat_map", "Iterator::flatten"))):
                src_, clo_ = (a[0], a[1]) if len(a) == 2 else (a[0][2][0], a[0][2][1]) if (a[0][0] == "call" and a[0][1].endswith("Iterator::map") and len(a[0][2]) == 2) else (None, None)
                if src_ is not None and msg_field(src_, "BatchesByIds", "ids") and clo_[0] == "closure":
                    found_ids = True
                    load = closure_result(prog, clo_, params={2: ("id",)})
                    okl = load is not None and load[0] == "call" and load[1] == "cw_storage_plus::Map::load" and ns_of(prog, load[2][0]) == "batches" and load[2][2] == ("id",)
                    R.ob("C17.R2", "BatchesByIds:loads-each-id", okl, "per-id load = %s" % fmt(load or ("none",))[:100], loc=c.body.loc(bi), fn=c.body.key)
                    R.ob("C17.R2", "BatchesByIds:keeps-exactly-the-Ok-loads", okl, "the flattened value is not the Result of the load", loc=c.body.loc(bi), fn=c.body.key)
    if not found_ids:
        # spelling C: `for id in ids { if let Ok(b) = BATCHES.load(storage, id) { found.push(b) } }`
        ids_p = lambda x: msg_field(x, "BatchesByIds", "ids")
        for c, path in inline_walk(prog, qc, 3):
            loads = [(bi, t, a) for bi, t, a in call_sites(c, lambda nm: nm == "cw_storage_plus::Map::load") if ns_of(prog, a[0]) == "batches" and is_next_elem(a[2], ids_p)]
            if len(loads) != 1:
                continue
            found_ids = True
            lbi, lt, la = loads[0]
            lterm = c.T.call_term(lt, lbi)
            pushes = [(bi, a) for bi, t, a in call_sites(c, lambda nm: nm == "std::vec::Vec::push")]
            okl = True
            want_b = norm(("payload", lterm, "Ok/Some"))
            # the pushed value is the loaded batch, or its response built from it
            okk = len(pushes) == 1 and any(norm(s_) == want_b for s_ in subterms(pushes[0][1][1]))
            if okk:
                # the push happens exactly when the load succeeded
                wok = c.assume_ok(lambda s_: norm(s_) == norm(lterm), True).settle()
                werr = c.assume_ok(lambda s_: norm(s_) == norm(lterm), False).settle()
                okk = pushes[0][0] in wok.T.reach and pushes[0][0] not in werr.T.reach
            R.ob("C17.R2", "BatchesByIds:loads-each-id", okl, "per-id load", loc=c.body.loc(lbi), fn=c.body.key)
            R.ob("C17.R2", "BatchesByIds:keeps-exactly-the-Ok-loads", okk, "the loop does not keep exactly the batches whose load succeeded", loc=c.body.loc(lbi), fn=c.body.key)
    R.ob("C17.R2", "BatchesByIds:shape", found_ids, "BatchesByIds is not ids.map(load).filter_map(ok)", fn="staking::contract::query")
    R.clear_undecided(["C17.R1", "C17.R2"])
    unstake_index_rules(R, env, prog)


def unstake_index_rules(R, env, prog):
    q = prog.body("staking::contract::query")
    qc = Ctx(q)
    # ------------------------------------------------------------ R3
    found_ur = False
    for c, path in inline_walk(prog, qc, 3):
        for o in storage_ops(c):
            if o["op"] == "range" and o["type"] == "Prefix":
                pre = o["args"][0]
                if pre[0] == "call" and pre[1] == "cw_storage_plus::UniqueIndex::prefix":
                    found_ur = True
                    idx = pre[2][0]
                    base, path_ = field_path(idx)
                    user = pre[2][1]
                    good = path_ == ["idx", "by_user"] and ns_of(prog, base) == "unstake_requests" and msg_field(shared.unwrap_payload(user) if user[0] == "payload" else user, "UnstakeRequests", "user") or (path_ == ["idx", "by_user"] and any(msg_field(s_, "UnstakeRequests", "user") for s_ in subterms(user)))
                    full = o["args"][2][0] == "agg" and o["args"][2][2] == "None" and o["args"][3][0] == "agg" and o["args"][3][2] == "None" and o["args"][4][0] == "agg" and o["args"][4][2] == "Ascending"
                    R.ob("C17.R3", "UnstakeRequests:by_user-prefix-of-the-user", bool(good), "index %s prefix %s" % (".".join(path_), fmt(user)[:80]), loc=o["loc"], fn=c.body.key)
                    R.ob("C17.R3", "UnstakeRequests:full-range-ascending", full, "range(%s, %s, %s)" % (fmt(o["args"][2])[:30], fmt(o["args"][3])[:30], fmt(o["args"][4])[:30]), loc=o["loc"], fn=c.body.key)
    R.ob("C17.R3", "UnstakeRequests:shape", found_ur, "UnstakeRequests does not range over a prefix of the by_user index", fn="staking::contract::query")
    # no second container over the IndexedMap's namespaces (a raw Map on the primary namespace skips the index upkeep)
    owned = set()
    for b in prog.fn_bodies(CRATE):
        if any(call_name(t) == "cw_storage_plus::IndexedMap::new" for _, t in b.calls()):
            cc = Ctx(b)
            for bi, t, a in call_sites(cc, lambda nm: nm in ("cw_storage_plus::IndexedMap::new", "cw_storage_plus::UniqueIndex::new", "cw_storage_plus::MultiIndex::new")):
                for x in a:
                    if x[0] == "const" and x[1] == "str":
                        owned.add(x[2])
    R.floor("C17.R3", "namespaces owned by the IndexedMap", len(owned), 2)
    alias = []
    for path in prog.consts:
        if path.startswith(CRATE + "::") and prog.storage_namespace(path) in owned:
            alias.append(path)
    for b in prog.fn_bodies(CRATE):
        if any(call_name(t) == "cw_storage_plus::IndexedMap::new" for _, t in b.calls()):
            continue
        cc = Ctx(b)
        for bi, t, a in call_sites(cc, lambda nm: nm.startswith("cw_storage_plus::") and nm.endswith("::new")):
            if any(x[0] == "const" and x[1] == "str" and x[2] in owned for x in a):
                alias.append("%s (%s)" % (b.key, b.loc(bi)))
    R.ob("C17.R3", "no-aliasing-container", not alias, "another storage container is declared over a namespace of the unstake-request IndexedMap %s: %s — writes through it bypass the by_user index" % (sorted(owned), alias), fn="staking::state")
    raw = []
    for b in prog.fn_bodies(CRATE):
        for bi, t in b.calls():
            nm = call_name(t) or ""
            if nm in ("cosmwasm_std::Storage::set", "cosmwasm_std::Storage::remove"):
                raw.append(b.loc(bi))
    # the index is kept by save / update / remove, which read the stored record themselves;
    # `replace(key, new, old)` trusts the caller's `old` and removes THAT record's index entry
    lowlevel = []
    for site_, c_ in shared.site_contexts(prog, CRATE, env).items():
        for o_ in storage_ops_deep(prog, c_, env.depth):
            if o_["kind"] == "w" and ns_of(prog, o_["args"][0]) == "unstake_requests" and o_.get("wop", o_["op"]) not in ("save", "update", "remove"):
                lowlevel.append("%s in %s (%s)" % (o_["op"], site_, o_["loc"]))
    R.ob("C17.R3", "index-maintained-by-the-library", not lowlevel, "the unstake-request IndexedMap is written through %s: the by_user index entry that is dropped is the one of the caller-supplied old value, not of the stored record" % lowlevel, fn="staking::state")
    R.ob("C17.R3", "no-raw-storage-writes", not raw, "raw storage writes at %s bypass the IndexedMap index upkeep" % raw, fn="staking")
    ib = [b for b in prog.fn_bodies(CRATE) if b.kind == "fn" and any(call_name(t) == "cw_storage_plus::IndexedMap::new" for _, t in b.calls())]
    for b in ib:
        c = Ctx(b)
        for bi, t, a in call_sites(c, lambda nm: nm == "cw_storage_plus::UniqueIndex::new"):
            res = closure_result(prog, a[0], params={2: ("rec",)}) if a[0][0] == "closure" else None
            if a[0][0] == "fn" and prog.body(a[0][1]) is not None:
                # a named function instead of a closure
                res = Terms(prog.body(a[0][1]), params={1: ("rec",)}).return_term()
            good = res is not None and res[0] == "tuple" and len(res[1]) == 2 and res[1][0] == ("field", ("rec",), "user") and res[1][1] == ("field", ("rec",), "batch_id")
            R.ob("C17.R3", "index-function-is-(user,batch_id)", good, "index function yields %s" % fmt(res or ("none",))[:100], loc=b.loc(bi), fn=b.key)




def _all_paths_contain(t, want, _memo=None):
    """every phi-resolution of term t contains the subterm `want`"""
    from engine.mir import intern
    if _memo is None:
        _memo = {}
        t = intern(t)
    if not isinstance(t, tuple):
        return False
    k = id(t)
    if k in _memo:
        return _memo[k]
    _memo[k] = False
    if t and isinstance(t[0], str):
        if norm(t) == want:
            r = True
        elif t[0] == "phi":
            r = all(_all_paths_contain(a, want, _memo) for a in t[1])
        else:
            r = any(_all_paths_contain(x, want, _memo) for x in t[1:] if isinstance(x, tuple))
    else:
        r = any(_all_paths_contain(x, want, _memo) for x in t)
    _memo[k] = r
    return r
