// Demonstration of defect D4 (C20.R4): integration test for packages/initia-proto
// (copy to packages/initia-proto/tests/verif_demo.rs in a scratch copy).
// FAILS on the pinned tree, PASSES after the fix.
use initia_proto::cosmos::base::abci::v1beta1::{MsgData, TxMsgData};
use initia_proto::traits::{MessageExt, TypeUrl};
use initia_proto::Any;

#[test]
fn d4_abci_type_urls_are_canonical() {
    // the protobuf package of these messages is cosmos.base.abci.v1beta1
    assert_eq!(MsgData::TYPE_URL, "/cosmos.base.abci.v1beta1.MsgData");
    assert_eq!(TxMsgData::TYPE_URL, "/cosmos.base.abci.v1beta1.TxMsgData");
    // an Any as produced by a chain must unpack
    let any = Any { type_url: "/cosmos.base.abci.v1beta1.TxMsgData".to_string(), value: vec![] };
    assert!(TxMsgData::from_any(&any).is_ok());
    assert_eq!(MsgData::default().to_any().unwrap().type_url, "/cosmos.base.abci.v1beta1.MsgData");
}
