"""C19 Token-factory messages are correct for the target chain in both build variants."""
import json
from .common import *
from . import shared
from .shared import agg_field, lst_denom
from engine.analysis import aggregates, must_pass, storage_ops_deep

CRATE = "staking"
COMPILE_FAILURE_IS_VIOLATION = {"miniwasm": True}

# pinned wire schema of the messages the contract emits on the miniwasm chain (C19.R3)
MINIWASM_SCHEMA = {
    "miniwasm.tokenfactory.v1.MsgCreateDenom": {"1": ("sender", "string", ""), "2": ("subdenom", "string", "")},
    "miniwasm.tokenfactory.v1.MsgMint": {"1": ("sender", "string", ""), "2": ("amount", "message", "optional"), "3": ("mint_to_address", "string", "")},
    "miniwasm.tokenfactory.v1.MsgBurn": {"1": ("sender", "string", ""), "2": ("amount", "message", "optional")},
    "cosmos.base.v1beta1.Coin": {"1": ("denom", "string", ""), "2": ("amount", "string", "")},
}
OSMOSIS_FQN = {"create": "osmosis.tokenfactory.v1beta1.MsgCreateDenom", "mint": "osmosis.tokenfactory.v1beta1.MsgMint", "burn": "osmosis.tokenfactory.v1beta1.MsgBurn"}
KINDS = {"MsgCreateDenom": "create", "MsgMint": "mint", "MsgBurn": "burn"}


def backend_fns(prog):
    """the token-factory interface functions of this configuration: kind -> body (recognised by the
    message they construct, in the module selected by the feature)."""
    out = {}
    for b in prog.fn_bodies(CRATE):
        if b.kind != "fn" or "::tokenfactory::" not in b.key:
            continue
        c = Ctx(b)
        for bi, si, t in aggregates(c, lambda adt, var: adt.split("::")[-1] in KINDS and "tokenfactory" in adt):
            out[KINDS[t[1].split("::")[-1]]] = (b, c, t, bi)
    return out


def run(R, env):
    R.rule("C19.R0", "both feature configurations (default = osmosis back-end, miniwasm) compile; the test-suite builds only the first")
    R.rule("C19.R1", "siblings: both back-ends export create_denom / mint / burn with identical signatures; in each the message fields come from the same parameters (sender <- p0, amount <- Some((p1.denom, p1.amount)), mint_to_address / burn_from_address <- p2; miniwasm burn: error exit unless p2 == p0)")
    R.rule("C19.R2", "type URLs: miniwasm: the Stargate type_url literal == '/' + protobuf FQN of the struct whose to_bytes() is the value; osmosis: the struct types are osmosis.tokenfactory.v1beta1.{MsgCreateDenom,MsgMint,MsgBurn} of the reference crate")
    R.rule("C19.R3", "schema: the three miniwasm messages and cosmos.base.v1beta1.Coin have the pinned tags / kinds")
    R.rule("C19.R4", "call sites in both configurations: create-denom <- (contract, message sub-denom) at instantiation; mint <- (contract, (LST denom, M), contract) in LiquidStake; burn <- (contract, (LST denom, pending batch total), contract) in SubmitBatch, with sender and holder identical by origin; the LST denom is format!(\"factory/{contract}/{validated subdenom}\")")
    R.rule("C19.R5", "everything else identical: cfg(feature = \"miniwasm\") occurs only in the token-factory module, and the MIR of every other function is equal between the two configurations modulo the back-end module path")
    R.assume("byte-level decoding follows from R3 + prost; osmosis-std's From<Msg> for CosmosMsg uses its own TYPE_URL (trusted library)")
    d = env.proto()
    pd = env.prog("default")
    pm = env.prog("miniwasm")  # CompileError -> R0 violation (handled by ./check)
    R.ob("C19.R0", "configuration:default", True, "compiled", fn="-")
    R.ob("C19.R0", "configuration:miniwasm", True, "compiled", fn="-")
    local, ref = d["local"], d["reference"]
    by_rust = {m["rust_path"]: fqn for fqn, m in local.items()}
    # ------------------------------------------------------------ R1 signatures
    tfs = d["tokenfactory"]
    sig = {}
    for f, fns in tfs.items():
        if fns:
            # the interface = the public functions (private helpers of a back-end are its own business)
            sig[f.split("/")[-1]] = {x["name"]: (tuple(a.split(":", 1)[1] for a in x["args"]), x["ret"], x["vis"]) for x in fns if x["vis"].startswith("pub")}
    R.ob("C19.R1", "two-backends", set(sig) == {"osmosis.rs", "miniwasm.rs"}, "token-factory back-end files: %s" % sorted(sig), fn="staking::tokenfactory")
    if set(sig) == {"osmosis.rs", "miniwasm.rs"}:
        a, b = sig["osmosis.rs"], sig["miniwasm.rs"]
        R.ob("C19.R1", "same-exports", set(a) == set(b) and len(a) == 3, "osmosis exports %s, miniwasm exports %s" % (sorted(a), sorted(b)), fn="staking::tokenfactory")
        for n in sorted(set(a) & set(b)):
            R.ob("C19.R1", "signature:" + n, a[n] == b[n], "osmosis %s vs miniwasm %s" % (a[n], b[n]), fn="staking::tokenfactory::" + n)
    # ------------------------------------------------------------ per configuration
    for cfgname, prog in (("default", pd), ("miniwasm", pm)):
        fns = backend_fns(prog)
        R.ob("C19.R1", cfgname + ":three-functions", set(fns) == {"create", "mint", "burn"}, "token-factory functions found in this configuration: %s" % sorted(fns), fn="staking::tokenfactory")
        names = {}
        for kind, (b, c, t, bi) in fns.items():
            fk = b.key
            names[kind] = b.key.split("::")[-1]
            p = lambda i: (lambda x: x[0] == "param" and x[1] == i)
            snd = agg_field(t, "sender")
            R.ob("C19.R1", "%s:%s:sender<-p0" % (cfgname, kind), snd is not None and p(1)(snd), "sender <- %s" % fmt(snd or ("none",))[:80], loc=b.loc(bi), fn=fk)
            if kind == "create":
                sd = agg_field(t, "subdenom")
                R.ob("C19.R1", "%s:create:subdenom<-p1" % cfgname, sd is not None and p(2)(sd), "subdenom <- %s" % fmt(sd or ("none",))[:80], loc=b.loc(bi), fn=fk)
            else:
                amt, den = shared.coin_parts(agg_field(t, "amount") or ("none",), 0, prog)
                good = amt is not None and den is not None and amt == ("field", amt[1], "amount") and p(2)(amt[1]) and den == ("field", den[1], "denom") and p(2)(den[1])
                R.ob("C19.R1", "%s:%s:amount<-p1" % (cfgname, kind), good, "amount <- (%s, %s)" % (fmt(den or ("none",))[:60], fmt(amt or ("none",))[:60]), loc=b.loc(bi), fn=fk)
                fld = "mint_to_address" if kind == "mint" else "burn_from_address"
                hv = agg_field(t, fld)
                if hv is not None:
                    R.ob("C19.R1", "%s:%s:%s<-p2" % (cfgname, kind, fld), p(3)(hv), "%s <- %s" % (fld, fmt(hv)[:80]), loc=b.loc(bi), fn=fk)
                elif kind == "mint":
                    R.ob("C19.R1", "%s:mint:mint_to_address<-p2" % cfgname, False, "mint message has no mint_to_address", loc=b.loc(bi), fn=fk)
                else:
                    # no burn_from field on this chain: the function must refuse p2 != p0
                    def boolean(x):
                        if x[0] == "call" and x[1] in EQ:
                            u, v = x[2]
                            if (p(3)(u) and p(1)(v)) or (p(1)(u) and p(3)(v)):
                                return EQ[x[1]]
                        return None
                    found = []
                    ok, off = guarded(c, Guard("holder==sender", boolean=boolean), prog, 2, found)
                    R.ob("C19.R1", "%s:burn:refuses-foreign-holder" % cfgname, ok, "the burn message has no burn_from_address and the function can succeed with burn_from_address != sender", loc=b.loc(bi), fn=fk, found=found)
            # ---- R2 type URL
            adt = t[1]
            if cfgname == "miniwasm":
                rp = adt.replace("initia_proto::", "")
                fqn = by_rust.get(rp)
                R.ob("C19.R2", "miniwasm:%s:struct-known" % kind, fqn is not None, "struct %s is not a generated message of the bindings" % adt, loc=b.loc(bi), fn=fk)
                from engine.analysis import aggregates_deep, resolve_terms, ok_payload
                stargates = [(c_.body.loc(sbi_, ssi_), ssi_, st_) for c_, path_, sbi_, ssi_, st_ in aggregates_deep(prog, c, lambda a_, v: a_.endswith("CosmosMsg") and v == "Stargate", 2)]
                R.ob("C19.R2", "miniwasm:%s:one-stargate" % kind, len(stargates) == 1, "found %d Stargate constructions" % len(stargates), fn=fk)
                for sbi, ssi, st in stargates:
                    url, val = agg_field(st, "type_url"), agg_field(st, "value")
                    from engine.analysis import forms as _forms19
                    # (`msg.to_any()?.type_url / .value` of the bindings' MessageExt: judged on what to_any builds)
                    for f_ in (_forms19(prog, url, 3) if url is not None else []):
                        if const_str(f_) is not None or (f_[0] == "item" and f_[1].endswith("TYPE_URL")):
                            url = f_
                            break
                    val_forms = list(_forms19(prog, val, 3)) if val is not None else []
                    if url is not None and url[0] == "item" and url[1].endswith("TYPE_URL") and const_str(url) is None:
                        # `M::TYPE_URL` of a generic wrapper: M is the type of the message whose bytes are
                        # the value (checked below), so the constant is that type's registered URL
                        # (the registry trait of the bindings, or a local trait carrying the same associated const)
                        regs = [i_ for i_ in prog.impls if i_.get("self_adt") == adt and "str" in ((i_.get("assoc_consts") or {}).get("TYPE_URL") or {})]
                        item_trait = url[1].rsplit("::", 2)[0] if url[1].count("::") >= 2 else ""
                        if len(regs) > 1:
                            regs = [i_ for i_ in regs if (i_.get("trait") or "").split("<")[0].endswith(url[1].rsplit("::", 1)[0].split("::")[-1])] or regs
                        if len(regs) == 1 and "str" in (regs[0]["assoc_consts"].get("TYPE_URL") or {}):
                            url = ("const", "str", regs[0]["assoc_consts"]["TYPE_URL"]["str"])
                    R.ob("C19.R2", "miniwasm:%s:type_url" % kind, url is not None and fqn is not None and const_str(url) == "/" + fqn, "type_url %s, expected \"/%s\" (the protobuf name of %s)" % (fmt(url or ("none",)), fqn, adt.split("::")[-1]), loc=sbi, fn=fk)
                    from engine.analysis import resolve_terms as _rt19
                    tn = {norm(t), norm(_rt19(prog, t, 2))}
                    carries = val is not None and any(s_[0] == "call" and s_[1].endswith("MessageExt::to_bytes") and (norm(s_[2][0]) in tn or norm(_rt19(prog, s_[2][0], 2)) in tn) for v_ in [val] + val_forms for s_ in subterms(v_))
                    R.ob("C19.R2", "miniwasm:%s:value-is-to_bytes-of-that-message" % kind, carries, "Stargate.value is not to_bytes() of the %s built in this function" % adt.split("::")[-1], loc=sbi, fn=fk)
                okv = ok_payload(resolve_terms(prog, c.T.return_term(), 2))
                good = all(a_[0] == "agg" and a_[2] == "Stargate" for a_ in (okv[1] if okv[0] == "phi" else (okv,)))
                R.ob("C19.R2", "miniwasm:%s:returns-the-stargate" % kind, good, "the function's Ok value is not the Stargate message", fn=fk)
            else:
                want = "osmosis_std::types::osmosis::tokenfactory::v1beta1::" + adt.split("::")[-1]
                R.ob("C19.R2", "default:%s:osmosis-type" % kind, adt == want and OSMOSIS_FQN[kind] in ref, "message type is %s; expected %s (FQN %s of the reference crate)" % (adt, want, OSMOSIS_FQN[kind]), loc=b.loc(bi), fn=fk)
                from engine.analysis import resolve_terms, ok_payload
                okv = ok_payload(resolve_terms(prog, c.T.return_term(), 2))
                good = norm(okv) == norm(resolve_terms(prog, t, 2))
                R.ob("C19.R2", "default:%s:returns-the-message" % kind, good, "the function's Ok value is not the message converted with Into<CosmosMsg>", fn=fk)
        # ---- R4 call sites
        sites = shared.site_contexts(prog, CRATE, env)
        expect = {"instantiate": "create", "LiquidStake": "mint", "SubmitBatch": "burn"}
        for site, kind in expect.items():
            if site not in sites:
                R.ob("C19.R4", "%s:%s:site" % (cfgname, site), False, "no such site", fn="staking::contract")
                continue
            h = sites[site]
            ms = shared.tf_messages(prog, h, env)
            R.ob("C19.R4", "%s:%s:emits-%s" % (cfgname, site, kind), [m["kind"] for m in ms] == [kind], "token-factory messages at %s: %s" % (site, [m["kind"] for m in ms]), fn=h.body.key)
            for m in ms:
                if m["kind"] != kind:
                    continue
                rb = m["root_bb"]
                call = h.body.blocks[rb]["term"]
                idx = len(h.body.blocks[rb]["stmts"])
                args = [h.T.operand(a, rb, idx) for a in call["args"]] if call["k"] == "call" else []
                R.ob("C19.R4", "%s:%s:sender-is-contract" % (cfgname, site), m["sender"] is not None and is_contract_addr(m["sender"]), "sender = %s" % fmt(m["sender"] or ("none",))[:80], loc=h.body.loc(rb), fn=h.body.key)
                R.ob("C19.R4", "%s:%s:in-response-on-every-success-path" % (cfgname, site), must_pass(h, rb) and shared.response_contains_call_at(h, rb), "the %s message is not in the Response of every success path" % kind, loc=h.body.loc(rb), fn=h.body.key)
                if kind == "create":
                    sd = m["subdenom"]
                    good = sd is not None and sd[0] == "field" and sd[2] == "liquid_stake_token_denom" and is_param_of_type(sd[1], "InstantiateMsg")
                    R.ob("C19.R4", "%s:instantiate:subdenom" % cfgname, good, "create-denom sub-denom = %s, expected msg.liquid_stake_token_denom" % fmt(sd or ("none",))[:100], loc=h.body.loc(rb), fn=h.body.key)
                else:
                    R.ob("C19.R4", "%s:%s:denom" % (cfgname, site), lst_denom(prog, m["denom"]), "denom = %s, expected config.liquid_stake_token_denom" % fmt(m["denom"] or ("none",))[:100], loc=h.body.loc(rb), fn=h.body.key)
                    # the exact amount: what LiquidStake adds to total_liquid_stake_token / the pending batch total
                    if kind == "mint":
                        Ms = []
                        for op_, alts_ in shared.state_writes(prog, h, env):
                            for base_, d_ in alts_ or []:
                                v_ = d_.get(("total_liquid_stake_token",))
                                if v_ is not None and delta_op(v_)[0] == "+=":
                                    Ms.append(delta_op(v_)[1])
                        am_ok = bool(Ms) and all(shared.same_any(prog, m["amount"], M_) for M_ in Ms)
                        R.ob("C19.R4", "%s:%s:amount" % (cfgname, site), am_ok, "minted amount %s is not the amount added to total_liquid_stake_token (%s)" % (fmt(m["amount"] or ("none",))[:100], [fmt(x)[:80] for x in Ms][:2]), loc=h.body.loc(rb), fn=h.body.key)
                    else:
                        a_ = m["amount"]
                        am_ok = a_ is not None and a_[0] == "field" and a_[2] == "batch_total_liquid_stake" and shared.is_pending_batch(prog, a_[1])
                        R.ob("C19.R4", "%s:%s:amount" % (cfgname, site), am_ok, "burned amount %s is not the pending batch's batch_total_liquid_stake" % fmt(a_ or ("none",))[:120], loc=h.body.loc(rb), fn=h.body.key)
                    good = len(args) == 3 and is_contract_addr(args[0]) and norm(args[0]) == norm(args[2])
                    R.ob("C19.R4", "%s:%s:holder==sender==contract" % (cfgname, site), good, "call arguments (sender, holder) = (%s, %s): must both be the contract address (on miniwasm a different holder is refused at run time)" % (fmt(args[0])[:60] if args else None, fmt(args[2])[:60] if len(args) > 2 else None), loc=h.body.loc(rb), fn=h.body.key)
        # LST denom construction
        ih = sites.get("instantiate")
        if ih is not None:
            n = 0
            for op in storage_ops_deep(prog, ih, env.depth):
                if op["kind"] == "w" and ns_of(prog, op["args"][0]) == "config" and op["op"] == "save":
                    n += 1
                    val = shared.written_agg(prog, op)
                    den = agg_field(val, "liquid_stake_token_denom") if val[0] == "agg" else None
                    fargs = []
                    if den is not None:
                        from engine.analysis import forms as _forms19b
                        for f_ in [den] + list(_forms19b(prog, den, 2)):
                            for s_ in subterms(f_):
                                if s_[0] == "call" and s_[1].endswith("Argument::new_display"):
                                    fargs.append(s_[2][0])
                            if fargs:
                                break
                    # (the template may sit in a helper / method that instantiate calls, e.g. InstantiateMsg::validate)
                    rfiles = set(prog.bodies[k_].span["file"] for k_ in reachable_bodies(prog, [ih.body.key]) if k_ in prog.bodies and prog.bodies[k_].crate == CRATE)
                    fl = [f for f in prog.formats if f["crate"] == CRATE and f["file"] in rfiles and f["pieces"] and f["pieces"][0].get("lit", "").startswith("factory/")]
                    tmpl_ok = len(fl) == 1 and [p.get("lit", "{%s}" % p.get("arg")) for p in fl[0]["pieces"]] == ["factory/", "{0}", "/", "{1}"]
                    args_ok = len(fargs) == 2 and is_contract_addr(fargs[0]) and fargs[1][0] == "payload" and any(s_[0] == "field" and s_[2] == "liquid_stake_token_denom" for s_ in subterms(fargs[1]))
                    # the validated sub-denom is the SAME string that create-denom receives: the validator returns its input
                    same_str = False
                    if len(fargs) == 2 and fargs[1][0] == "payload":
                        vc = shared.unwrap_payload(fargs[1])
                        vb = shared._body_of_call(prog, vc) if vc[0] == "call" else None
                        if vb is not None:
                            oks = [e_ for e_ in exits(Ctx(vb)) if e_["kind"] == "ok"]
                            same_str = bool(oks) and all(e_["term"][3][0][2][0] == "param" and e_["term"][3][0][2][1] == 1 for e_ in oks)
                            cd = [m_ for m_ in shared.tf_messages(prog, ih, env) if m_["kind"] == "create"]
                            same_str = same_str and len(cd) == 1 and norm(cd[0]["subdenom"]) == norm(vc[2][0])
                    R.ob("C19.R4", "%s:instantiate:configured-subdenom==created-subdenom" % cfgname, same_str, "the sub-denom stored in the LST denom is %s but create-denom receives %s: they must be the same string (the validator must return its input unchanged)" % (fmt(fargs[1])[:100] if len(fargs) == 2 else None, "msg.liquid_stake_token_denom"), loc=op["loc"], fn=ih.body.key)
                    R.ob("C19.R4", "%s:instantiate:lst-denom-is-factory/contract/subdenom" % cfgname, tmpl_ok and args_ok, "liquid_stake_token_denom template %s with arguments %s; expected \"factory/{contract address}/{validated sub-denom}\"" % ([p for p in (fl[0]["pieces"] if fl else [])], [fmt(a)[:60] for a in fargs]), loc=op["loc"], fn=ih.body.key)
            R.floor("C19.R4", cfgname + ": CONFIG.save in instantiate", n, 1)
    # ------------------------------------------------------------ R3 schema
    for fqn, want in MINIWASM_SCHEMA.items():
        m = local.get(fqn)
        if m is None:
            R.ob("C19.R3", fqn, False, "message missing from the bindings", fn=fqn)
            continue
        cur = {t: (f["name"], f["kind"], f["label"]) for f in m["fields"] for t in f["tags"]}
        R.ob("C19.R3", fqn, cur == want, "bindings define %s; the chain's definition is %s" % (cur, want), loc="%s:%s" % (m["file"], m["line"]), fn=fqn)
    cm = local.get("miniwasm.tokenfactory.v1.MsgMint")
    if cm:
        at = [f for f in cm["fields"] if f["name"] == "amount"]
        R.ob("C19.R3", "MsgMint.amount-is-Coin", bool(at) and at[0]["rust_ty"].endswith("cosmos::base::v1beta1::Coin>"), "MsgMint.amount has type %s" % (at[0]["rust_ty"] if at else None), fn="miniwasm.tokenfactory.v1.MsgMint")
    # ------------------------------------------------------------ R5
    mw = [c for c in d["cfg"] if "miniwasm" in c["text"]]
    R.floor("C19.R5", "cfg(feature = miniwasm) occurrences", len(mw), 2)
    for c in mw:
        R.ob("C19.R5", "cfg-site:%s" % c["file"].split("/src/")[-1], "/tokenfactory/" in c["file"], "`%s` outside the token-factory module: the two builds can differ elsewhere" % c["text"], loc="%s:%s" % (c["file"], c["line"]), fn=c["file"])
    nd = nm = 0
    canon = lambda b: json.dumps(b.j["blocks"], sort_keys=True).replace("tokenfactory::osmosis", "tokenfactory::BACKEND").replace("tokenfactory::miniwasm", "tokenfactory::BACKEND")
    keys_d = set(k for k, b in pd.bodies.items() if b.crate == CRATE and "::tokenfactory::" not in k)
    keys_m = set(k for k, b in pm.bodies.items() if b.crate == CRATE and "::tokenfactory::" not in k)
    R.ob("C19.R5", "same-function-set", keys_d == keys_m, "functions only in default: %s; only in miniwasm: %s" % (sorted(keys_d - keys_m)[:5], sorted(keys_m - keys_d)[:5]), fn="staking")
    diff = []
    for k in sorted(keys_d & keys_m):
        nd += 1
        if canon(pd.bodies[k]) != canon(pm.bodies[k]):
            diff.append(k)
    R.ob("C19.R5", "same-MIR-outside-tokenfactory", not diff, "MIR differs between the two configurations in %s" % diff[:6], fn=diff[0] if diff else "staking")
    R.floor("C19.R5", "bodies compared between configurations", nd, 150)
    R.call_sites += nd
