#!/usr/bin/env python3
"""pin the wire schema of the generated bindings (FQN -> tag -> kind/label) from the CURRENT tree.
Run once on a reviewed tree; the baseline is a schema, not source text."""
import json, os, sys
sys.path.insert(0, os.path.dirname(os.path.dirname(os.path.dirname(os.path.abspath(__file__)))))
from engine import facts
d = json.load(open(facts.ensure_proto()))
out = {}
for fqn, m in sorted(d["local"].items()):
    e = {"kind": m["kind"], "tags": {}}
    for f in m["fields"]:
        for t in f["tags"]:
            e["tags"][t] = [f["kind"], f["label"]] if m["kind"] != "enum" else [f["name"], ""]
    out[fqn] = e
p = os.path.join(os.path.dirname(os.path.dirname(os.path.dirname(os.path.abspath(__file__)))), "baselines", "proto_schema.json")
json.dump(out, open(p, "w"), indent=0, sort_keys=True)
print(p, len(out), "types", sum(len(v["tags"]) for v in out.values()), "tags")
