// Demonstrations of the defects D1-D3 found by the static checks (C03.R2, C15.R1, C15.R4).
// Integration test for contracts/staking (copy to contracts/staking/tests/verif_demo.rs in a
// scratch copy).  Each test FAILS on the pinned tree and PASSES after the corresponding fix.
use cosmwasm_std::testing::{mock_dependencies, mock_env, mock_info, MockApi, MockQuerier, MockStorage};
use cosmwasm_std::{coins, CosmosMsg, OwnedDeps, Uint128};
use osmosis_std::types::cosmwasm::wasm::v1::MsgExecuteContract;
use osmosis_std::types::ibc::applications::transfer::v1::MsgTransfer;
use prost::Message;
use staking::contract::{execute, instantiate};
use staking::msg::{ExecuteMsg, InstantiateMsg};
use staking::state::{CONFIG, STATE};
use staking::types::{UnsafeNativeChainConfig, UnsafeProtocolChainConfig, UnsafeProtocolFeeConfig};

const OSMO3: &str = "osmo1sfhy3emrgp26wnzuu64p06kpkxd9phel8ym0ge";
const OSMO4: &str = "osmo17x4zm0m0mxc428ykll3agmehfrxpr5hqpmsatd";
const STAKER: &str = "celestia1sfhy3emrgp26wnzuu64p06kpkxd9phel74e0yx";
const CELESTIA1: &str = "celestia1fc25htmfvg28ygjckkhrxr7t73ek6zly8dshju";
const CELESTIA2: &str = "celestia1ztrhpdznu2xlwakd4yp3hg9lwyr3d46ayd30u2";
const VAL1: &str = "celestiavaloper1463wx5xkus5hyugyecvlhv9qpxklz62kyhwcts";
const NATIVE: &str = "ibc/C3E53D20BC7A4CC993B17C7971F8ECD06A433C10B6A96F4C4C3714F0624C56DA";

fn init(oracle: Option<String>) -> OwnedDeps<MockStorage, MockApi, MockQuerier> {
    let mut deps = mock_dependencies();
    let msg = InstantiateMsg {
        native_chain_config: UnsafeNativeChainConfig {
            token_denom: "utia".into(),
            account_address_prefix: "celestia".into(),
            validator_address_prefix: "celestiavaloper".into(),
            validators: vec![VAL1.into()],
            unbonding_period: 1209600,
            staker_address: STAKER.into(),
            reward_collector_address: CELESTIA2.into(),
        },
        protocol_chain_config: UnsafeProtocolChainConfig {
            account_address_prefix: "osmo".into(),
            ibc_token_denom: NATIVE.into(),
            ibc_channel_id: "channel-123".into(),
            oracle_address: oracle,
            minimum_liquid_stake_amount: Uint128::from(100u128),
        },
        liquid_stake_token_denom: "umilkTIA".into(),
        monitors: vec![],
        batch_period: 86400,
        protocol_fee_config: UnsafeProtocolFeeConfig { dao_treasury_fee: Uint128::from(10000u128), treasury_address: None },
    };
    instantiate(deps.as_mut(), mock_env(), mock_info(OSMO3, &[]), msg).unwrap();
    let mut c = CONFIG.load(&deps.storage).unwrap();
    c.stopped = false;
    CONFIG.save(&mut deps.storage, &c).unwrap();
    deps
}

fn decode_transfer(m: &CosmosMsg) -> Option<MsgTransfer> {
    if let CosmosMsg::Stargate { type_url, value } = m {
        if type_url == "/ibc.applications.transfer.v1.MsgTransfer" {
            return MsgTransfer::decode(value.as_slice()).ok();
        }
    }
    None
}

fn decode_exec(m: &CosmosMsg) -> Option<MsgExecuteContract> {
    if let CosmosMsg::Stargate { type_url, value } = m {
        if type_url == "/cosmwasm.wasm.v1.MsgExecuteContract" {
            return MsgExecuteContract::decode(value.as_slice()).ok();
        }
    }
    None
}

/// D1 (C03): at an exchange rate of 2 staked : 1 LST a stake of 1000 mints 500 LST; the
/// IBC delivery to a native-chain recipient must carry exactly those 500.
#[test]
fn d1_native_delivery_carries_minted_amount() {
    let mut deps = init(Some(OSMO4.into()));
    let mut st = STATE.load(&deps.storage).unwrap();
    st.total_native_token = Uint128::new(2000);
    st.total_liquid_stake_token = Uint128::new(1000);
    STATE.save(&mut deps.storage, &st).unwrap();
    let res = execute(
        deps.as_mut(),
        mock_env(),
        mock_info(OSMO3, &coins(1000, NATIVE)),
        ExecuteMsg::LiquidStake { mint_to: Some(CELESTIA1.into()), transfer_to_native_chain: None, expected_mint_amount: None },
    )
    .unwrap();
    let mint_amount = res.attributes.iter().find(|a| a.key == "mint_amount").unwrap().value.clone();
    assert_eq!(mint_amount, "500");
    let lst: Vec<MsgTransfer> = res
        .messages
        .iter()
        .filter_map(|m| decode_transfer(&m.msg))
        .filter(|t| t.token.as_ref().unwrap().denom.starts_with("factory/"))
        .collect();
    assert_eq!(lst.len(), 1);
    assert_eq!(lst[0].receiver, CELESTIA1);
    assert_eq!(lst[0].token.as_ref().unwrap().amount, mint_amount, "IBC delivery must carry the minted amount");
}

/// D2 (C15): the first stake into an empty pool must post the post-transaction rates (1 / 1).
#[test]
fn d2_first_stake_posts_post_transaction_rates() {
    let mut deps = init(Some(OSMO4.into()));
    let res = execute(
        deps.as_mut(),
        mock_env(),
        mock_info(OSMO3, &coins(1000, NATIVE)),
        ExecuteMsg::LiquidStake { mint_to: None, transfer_to_native_chain: None, expected_mint_amount: None },
    )
    .unwrap();
    let posts: Vec<MsgExecuteContract> = res.messages.iter().filter_map(|m| decode_exec(&m.msg)).collect();
    assert_eq!(posts.len(), 1);
    let v: serde_json::Value = serde_json::from_slice(&posts[0].msg).unwrap();
    assert_eq!(v["post_rates"]["redemption_rate"], "1", "payload: {v}");
    assert_eq!(v["post_rates"]["purchase_rate"], "1", "payload: {v}");
}

/// D3 (C15/C16): a configuration without an oracle is accepted by validation; staking must still work.
#[test]
fn d3_stake_without_oracle_does_not_panic() {
    let mut deps = init(None);
    let res = execute(
        deps.as_mut(),
        mock_env(),
        mock_info(OSMO3, &coins(1000, NATIVE)),
        ExecuteMsg::LiquidStake { mint_to: None, transfer_to_native_chain: None, expected_mint_amount: None },
    )
    .unwrap();
    assert!(res.messages.iter().filter_map(|m| decode_exec(&m.msg)).next().is_none());
}

/// D5 (C16): ResumeContract is documented as "sets the totals to exactly the values supplied";
/// the admin supplying a zero staked total with a non-zero LST total must get a result or a
/// typed error, not a division-by-zero panic in the rate computation.
#[test]
fn d5_resume_with_zero_staked_total_does_not_panic() {
    let mut deps = init(Some(OSMO4.into()));
    let r = std::panic::catch_unwind(std::panic::AssertUnwindSafe(|| {
        execute(
            deps.as_mut(),
            mock_env(),
            mock_info(OSMO3, &[]),
            ExecuteMsg::ResumeContract {
                total_native_token: Uint128::zero(),
                total_liquid_stake_token: Uint128::new(5),
                total_reward_amount: Uint128::zero(),
            },
        )
    }));
    assert!(r.is_ok(), "ResumeContract panicked (division by zero in the rate computation)");
}
