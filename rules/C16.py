"""C16 Entry points never panic: the panic-SITE discipline (arithmetic magnitudes are declined)."""
import json
import os
import re
from .common import *
from . import shared
from engine.analysis import reachable_bodies, resolve_terms, storage_ops_deep
from engine.mir import Body, short

VERIF = os.path.dirname(os.path.dirname(os.path.abspath(__file__)))
ENTRY = ["instantiate", "execute", "query", "sudo", "reply", "migrate"]
UNWRAPS = {
    "std::option::Option::unwrap": "none", "std::option::Option::expect": "none",
    "std::result::Result::unwrap": "err", "std::result::Result::expect": "err",
    "std::result::Result::unwrap_err": "ok", "std::result::Result::expect_err": "ok",
}
PANICS = ("core::panicking::", "std::rt::begin_panic", "std::panicking::", "core::option::expect_failed", "core::result::unwrap_failed")
RATIO = {"cosmwasm_std::Uint128::multiply_ratio": 2, "cosmwasm_std::Uint128::checked_multiply_ratio": 2, "cosmwasm_std::Decimal::from_ratio": 1, "cosmwasm_std::Decimal::checked_from_ratio": 1, "cosmwasm_std::Uint128::mul_floor": None, "cosmwasm_std::Uint128::mul_ceil": None}

# I4: reviewed justifications.  key = (function, site kind, subject descriptor); each with its reason and,
# where one exists, a structural obligation id discharged below or by another property.
JUSTIFIED = {
    ("treasury::query::query_config", "expect", "payload(Admin::get(admin))"): ("every Admin::set in the treasury passes Some(addr)", "admin-always-some"),
    ("staking::helpers::get_rates", "unwrap", "Item::load(state)"): ("STATE is saved by instantiate on every success path before any other entry point can run", "state-saved-at-instantiation"),
    ("staking::execute::recover", "unwrap", "Iterator::next(Map::range(inflight))"): ("the packets being recovered were all read from INFLIGHT_PACKETS and the list is non-empty (error exit above), so the map has a last key", None),
    ("staking::execute::recover", "unwrap", "payload(Iterator::next(Map::range(inflight)))"): ("deserialisation of a record this contract stored itself", None),
    ("staking::execute::ibc_transfer_msg", "unwrap", "IbcTimeout::timestamp(IbcTimeout::with_timestamp)"): ("a timeout built with with_timestamp always has a timestamp", "timeout-built-with-timestamp"),
    ("staking::execute::execute_liquid_unstake::{closure#1}", "unwrap", "param"): ("BATCHES.update on the pending batch id: the pending batch always exists (C06.R1 pairing of PENDING_BATCH_ID with BATCHES.save)", None),
    ("staking::execute::update_oracle_msgs", "unwrap", "serde_json::to_string"): ("serialising an enum of three Strings cannot fail", None),
    ("staking::state::remove_unstake_request", "unwrap", "IndexedMap::remove(unstake_requests)"): ("IndexedMap::remove fails only if the stored record does not deserialise", None),
}
# justifications that do not depend on the enclosing function (the fact they rest on is global):
# (kind, descriptor) -> reason.  A site moved into another function keeps its justification.
JUSTIFIED_ANYWHERE = {
    ("unwrap", "serde_json::to_string"): "serialising the oracle message (an enum of Strings) cannot fail",
    ("unwrap", "serde_json::to_vec"): "serialising the oracle message (an enum of Strings) cannot fail",
    ("unwrap", "cosmwasm_std::to_json_string"): "serialising the oracle message (an enum of Strings) cannot fail",
    ("unwrap", "cosmwasm_std::to_json_vec"): "serialising the oracle message (an enum of Strings) cannot fail",
    ("unwrap", "cosmwasm_std::to_json_binary"): "serialising the oracle message (an enum of Strings) cannot fail",
    ("unwrap", "Item::load(state)"): "STATE is saved by instantiate on every success path before any other entry point can run",
    ("unwrap", "IbcTimeout::timestamp(IbcTimeout::with_timestamp)"): "a timeout built with with_timestamp always has a timestamp",
    ("unwrap", "IndexedMap::remove(unstake_requests)"): "IndexedMap::remove fails only if the stored record does not deserialise",
    ("expect", "payload(Admin::get(admin))"): "every Admin::set passes Some(addr)",
}
# R5: ratio sites whose denominator is not locally guarded: (function, callee short) -> reason
RATIO_JUSTIFIED = {
    ("staking::helpers::compute_unbond_amount", "multiply_ratio"): "only called from SubmitBatch after ensure!(total_lst >= batch_total) with a non-empty batch (batch_total > 0), hence total_lst > 0",
    ("staking::execute::execute_withdraw", "multiply_ratio"): "a request exists in the batch (checked above) and requests are created only with a positive paid amount that is added to batch_total, hence batch_total > 0",
}


def descr(prog, t):
    """stable descriptor of a subject term: head callee / storage namespace / field (no line numbers)."""
    if t[0] == "payload":
        return "payload(%s)" % descr(prog, t[1])
    if t[0] == "trybranch":
        return descr(prog, t[1])
    if t[0] == "field":
        return descr(prog, t[1]) + "." + t[2] if t[1][0] != "param" else "param." + t[2]
    if t[0] == "param":
        return "param"
    if t[0] == "capture":
        return "capture"
    if t[0] == "call":
        nm = short(t[1])
        if t[1].startswith(("cw_storage_plus::", "cw_controllers::")) and t[2]:
            inner = t[2][0]
            if nm in ("Map::keys", "Map::range_raw", "Map::keys_raw"):
                nm = "Map::range"  # the same scan as far as "is there a first / last entry" goes
            if nm in ("Map::last", "Map::first"):
                # map.last(storage) is range(.., Descending).next(): the same "is there an entry" question
                return "Iterator::next(Map::range(%s))" % ns_of(prog, t[2][0])
            if inner[0] == "call" and inner[1].startswith("cw_storage_plus::"):
                return "%s(%s)" % (nm, descr(prog, inner))
            return "%s(%s)" % (nm, ns_of(prog, t[2][0]))
        if nm in ("Iterator::next", "IbcTimeout::timestamp", "Iterator::take") and t[2]:
            d = descr(prog, t[2][0])
            if nm == "Iterator::take":
                return d
            return "%s(%s)" % (nm, d)
        return nm
    if t[0] == "phi":
        return "phi"
    return t[0]


def is_panic_call(nm):
    return nm.startswith(PANICS)


def bounds_ok(prog, c, bi, t):
    """I6: `xs[k]` (k a literal) on a slice: the lengths 0..k are excluded at this point — by a test
    in the function itself, or, when xs is a parameter, at every call site of the function."""
    from engine.analysis import cmp_operands, len_of
    idx = len(c.body.blocks[bi]["stmts"])
    cond = c.T.operand(t["cond"], bi, idx)
    co = cmp_operands(cond)
    if co is None or co[0] != "Lt":
        return False
    kk, x = const_int(co[1]), len_of(co[2])
    if kk is None and x is not None:
        # xs[xs.len() - 1]: in bounds exactly when xs is not empty
        i_ = fold(co[1])
        if i_[0] == "field" and i_[2] == "0":
            i_ = i_[1]
        if i_[0] == "bin" and i_[1] in ("Sub", "SubWithOverflow", "SubUnchecked") and const_int(i_[3]) == 1 and len_of(i_[2]) is not None and norm(len_of(i_[2])) == norm(x):
            kk = 0
    if kk is None or x is None or kk > 8:
        return False
    xn = norm(x)
    local = all(bi not in c.assume_len(lambda y: norm(y) == xn, v).settle().T.reach for v in range(0, kk + 1))
    if not (x[0] == "param") or local:
        # (the test may be in this function or in a callee it `?`-propagates, e.g. an allow-list check that refuses an empty route)
        return local
    # parameter: every caller must exclude the short lengths before the call
    ncalls = 0
    for cb in prog.fn_bodies(c.body.crate):
        for cbi, ct in cb.calls():
            if ct.get("rkey") != c.body.key:
                continue
            ncalls += 1
            cc = Ctx(cb)
            arg = cc.T.operand(ct["args"][x[1] - 1], cbi, len(cb.blocks[cbi]["stmts"]))
            an = norm(arg)
            for v in range(0, kk + 1):
                if cbi in cc.assume_len(lambda y: norm(y) == an, v).settle().T.reach:
                    return False
    return ncalls > 0


def _oracle_forms(prog, subj):
    """subj and, when it names a local constructor helper (`Oracle::post_rates(denom, &rates)`), its inlining forms"""
    from engine.analysis import forms
    if any(s_[0] == "call" and prog.body(s_[1]) is not None for s_ in subterms(subj)):
        return [subj] + list(forms(prog, subj, 2))
    return [subj]


def run(R, env):
    prog = env.prog("default")
    R.rule("C16.R1", "inventory: every unwrap / expect / index / slice / explicit panic construct in non-derive code reachable from the entry points of both contracts is listed and must be discharged by R2")
    R.rule("C16.R7", "no `a - b` / `a -= b` with the panicking operator on Uint128 / Uint256 / Decimal is reachable from an entry point unless the site is unreachable in the world a < b (a comparison of the same operands dominates it); positive control committed")
    R.rule("C16.R2", "each site matches an idiom: (I1) unreachable in the world where its subject is None/Err (dominated by the matching test of the same value); (I1') strip_prefix(s, lit).unwrap() behind starts_with(s, lit); (I2) index / last().unwrap() unreachable when the collection is empty (directly or through a callee that rejects empty input), full-range slices are total; (I3) checked_sub(a, b).unwrap() unreachable in the world a < b; (I5) <batch>.received_native_unstaked.unwrap() reachable only behind <batch>.status == Received (the save that marks a batch Received stores Some(amount), obligation I4:received-set-with-status); (I4) a line of the reviewed justification table, with its structural obligation where one exists")
    R.rule("C16.R3", "an unwrap of an Option that is a configuration field validation allows to be absent (oracle_address, treasury_address) is never accepted through I4")
    R.rule("C16.R4", "no explicit panic!/unreachable!/assert! is reachable from an entry point; the detector is exercised on a committed positive-control body on every run")
    R.rule("C16.R5", "division sites (multiply_ratio, Decimal::from_ratio): the denominator is a non-zero constant, or the site is unreachable in the world denominator.is_zero(), or it is in the reviewed table with its reason")
    R.rule("C16.R6", "no product of two token amounts in 128 bits: no Uint128 Mul / MulAssign / checked_mul / pow is reachable (amounts up to 1e27 need a 256-bit intermediate: Uint128::multiply_ratio); exercised on a committed positive-control body")
    R.assume("DECLINED: freedom from arithmetic overflow and ratio range errors depends on runtime magnitudes (amounts <= 1e27, rates in [1e-3, 1e3]); the primitive-arithmetic assert sites are listed as information only")
    roots = []
    for cr in ("staking", "treasury"):
        for ep in ENTRY:
            k = "%s::contract::%s" % (cr, ep)
            if prog.body(k):
                roots.append(k)
    R.floor("C16.R1", "entry points", len(roots), 10)
    bodies = [k for k in reachable_bodies(prog, roots) if prog.bodies[k].kind in ("fn", "closure")]
    R.floor("C16.R1", "bodies reachable from the entry points", len(bodies), 100)
    nsites = 0
    arith = []
    explicit = []
    used_just = set()
    for k in bodies:
        b = prog.bodies[k]
        c = Ctx(b)
        c.prog = prog
        for bi, blk in enumerate(b.blocks):
            if blk["cleanup"] or bi not in c.T.reach:
                continue
            t = blk["term"]
            if t["k"] == "assert":
                if t["what"] == "bounds":
                    nsites += 1
                    R.ob("C16.R2", "bounds-check", bounds_ok(prog, c, bi, t), "raw index with a bounds assertion that is not excluded by a length test in this function or in every caller", loc=b.loc(bi), fn=k)
                else:
                    arith.append("%s %s" % (b.loc(bi), t["what"]))
                continue
            if t["k"] != "call":
                continue
            nm = call_name(t) or ""
            idx = len(blk["stmts"])
            if is_panic_call(nm) and not (t.get("span") or {}).get("exp") is None:
                pass
            if is_panic_call(nm):
                explicit.append((k, b.loc(bi), nm))
                continue
            if nm in UNWRAPS:
                nsites += 1
                subj = c.T.operand(t["args"][0], bi, idx)
                kind = "expect" if nm.endswith("expect") or nm.endswith("expect_err") else "unwrap"
                how = None
                want_some = UNWRAPS[nm] == "ok"  # world that would panic
                sn = norm(subj)
                pred = lambda x, sn=sn: norm(x) == sn
                rem, n = world_edges(c, pred, want_some)
                w = c.with_removed(rem).settle()
                if n >= 1 and bi not in w.T.reach:
                    how = "I1"
                if how is None and subj[0] == "call" and subj[1] == "core::str::strip_prefix":
                    s_, lit = subj[2]
                    w = c.assume_bool(lambda x, s_=s_, lit=lit: x[0] == "call" and x[1] == "core::str::starts_with" and norm(x[2][0]) == norm(s_) and x[2][1] == lit, False).settle()
                    if bi not in w.T.reach:
                        how = "I1'"
                if how is None and subj[0] == "call" and subj[1] in ("core::slice::last", "core::slice::first"):
                    coll = subj[2][0]
                    w = c.assume_bool(lambda x, coll=coll: x[0] == "call" and x[1] in ("core::slice::is_empty", "std::vec::Vec::is_empty") and norm(x[2][0]) == norm(coll), True).settle()
                    if bi not in w.T.reach:
                        how = "I2"
                if how is None and subj[0] == "call" and subj[1] == "cosmwasm_std::Uint128::checked_sub" and UNWRAPS[nm] == "err":
                    a_, b_ = subj[2]
                    rem = set()
                    n = 0
                    for abi, atom in c.atoms():
                        if atom[0] != "bool":
                            continue
                        rel = cmp_rel(atom[1], lambda x: norm(x) == norm(a_), lambda y: norm(y) == norm(b_))
                        if rel is None:
                            continue
                        n += 1
                        val = "<" in rel
                        for tg in atom[2][not val]:
                            if tg not in atom[2][val]:
                                rem.add((abi, tg))
                    w = c.with_removed(rem).settle()
                    if n >= 1 and bi not in w.T.reach:
                        how = "I3"
                if how is None and subj[0] == "field" and subj[2] == "received_native_unstaked" and UNWRAPS[nm] == "none":
                    # I5: `<batch>.received_native_unstaked.unwrap()` where the site is reachable only with
                    # <batch>.status == Received (== / != / match, in this body): the only save that marks a batch
                    # Received stores Some(amount) with it (obligation I4:received-set-with-status below)
                    from engine.analysis import pass_edges as _pe, fail_world as _fw
                    X_ = norm(subj[1])
                    G5 = shared.status_guard(lambda x, X_=X_: norm(x) == X_, "Received")
                    e5 = _pe(c, G5, prog, env.depth, [])
                    if e5 and bi not in _fw(c.with_removed(e5), G5).settle().T.reach:
                        how = "I5"
                d = descr(prog, subj)
                cfg_opt = any(loaded_field(prog, s_, "config", p, "staking") for s_ in subterms(subj) for p in (["protocol_chain_config", "oracle_address"], ["protocol_fee_config", "treasury_address"])) or (field_path(subj)[1][-1:] in (["oracle_address"], ["treasury_address"]))
                if how is None and cfg_opt:
                    R.ob("C16.R3", "optional-config-field-unwrapped", False, "%s of %s: validation allows this field to be absent, and no test of it dominates the site" % (kind, fmt(subj)[:140]), loc=b.loc(bi), fn=k)
                    continue
                kk = re.sub(r"\{closure#\d+\}", "{closure}", k)
                jk = next((j for j in JUSTIFIED if (re.sub(r"\{closure#\d+\}", "{closure}", j[0]), j[1], j[2]) == (kk, kind, d)), None)
                if how is None and jk is not None:
                    how = "I4"
                    used_just.add(jk)
                if how is None and kind == "unwrap" and d == "payload(Map::may_load(batches))" and any(is_load(prog, s_, "pending_batch_id", "staking") for s_ in subterms(subj)):
                    how = "I4'"  # the pending batch always exists (C06.R1 pairing of PENDING_BATCH_ID with BATCHES.save)
                if how is None and (kind, d) in JUSTIFIED_ANYWHERE and (d not in ("serde_json::to_string", "serde_json::to_vec", "cosmwasm_std::to_json_string", "cosmwasm_std::to_json_vec", "cosmwasm_std::to_json_binary") or any(s_[0] == "agg" and s_[1].endswith("oracle::Oracle") for f_ in _oracle_forms(prog, subj) for s_ in subterms(f_))) and not k.endswith("::instantiate"):
                    how = "I4'"
                R.ob("C16.R2", "%s:%s" % (kind, d), how is not None, "%s of %s is not dominated by a test of the same value and is not in the reviewed justification table (descriptor `%s`)" % (kind, fmt(subj)[:160], d), loc=b.loc(bi), fn=k)
                if how:
                    R.info("C16.R2", "%s %s %s -> %s" % (k.split("::", 1)[1], kind, d, how))
                continue
            if nm == "std::ops::Index::index":
                nsites += 1
                coll = c.T.operand(t["args"][0], bi, idx)
                ix = c.T.operand(t["args"][1], bi, idx)
                how = None
                if ix[0] == "agg" and ix[1].endswith("RangeFull"):
                    how = "total(full range)"
                elif ix[0] == "agg" and ix[1].endswith("RangeTo") and (shared.agg_field(ix, "end") or ("none",))[0] == "call" and (shared.agg_field(ix, "end"))[1].endswith("::min") and any(__import__("engine.analysis", fromlist=["len_of"]).len_of(a_) is not None and norm(__import__("engine.analysis", fromlist=["len_of"]).len_of(a_)) == norm(coll) for a_ in shared.agg_field(ix, "end")[2]):
                    how = "I9(xs[..min(xs.len(), n)] never exceeds the length)"
                elif ix[0] == "payload" and shared.unwrap_payload(ix)[0] == "call" and shared.unwrap_payload(ix)[1].endswith("Iterator::position") and norm(shared.unwrap_payload(ix)[2][0]) == norm(coll):
                    how = "I8(index found by position() over the same collection)"
                else:
                    w = c.assume_bool(lambda x, coll=coll: x[0] == "call" and x[1] in ("core::slice::is_empty", "std::vec::Vec::is_empty") and norm(x[2][0]) == norm(coll), True).settle()
                    small = const_int(ix) == 0 or (ix[0] == "agg" and ix[1].endswith("RangeFrom") and const_int(shared.agg_field(ix, "start")) in (0, 1))
                    if bi not in w.T.reach and small:
                        how = "I2"
                    if how is None and b.kind == "closure" and ix[0] == "agg" and ix[1].endswith("RangeTo"):
                        # `xs[..i]` inside `xs.iter().enumerate().map(|(i, x)| ..)`: i < len(xs)
                        from engine.analysis import inline_walk as _iw4
                        pb = prog.body(k.split("::{closure")[0])
                        for c2, p2 in (_iw4(prog, Ctx(pb), 1) if pb is not None else []):
                            if c2.body.key != k:
                                continue
                            coll2 = c2.T.operand(t["args"][0], bi, idx)
                            ix2 = c2.T.operand(t["args"][1], bi, idx)
                            end = shared.agg_field(ix2, "end") if ix2[0] == "agg" else None
                            if end is not None and end[0] == "field" and end[2] == "0" and end[1][0] == "payload":
                                nx = shared.unwrap_payload(end[1])
                                if nx[0] == "call" and nx[1].endswith("Iterator::next") and nx[2] and nx[2][0][0] == "call" and nx[2][0][1].endswith("Iterator::enumerate") and norm(nx[2][0][2][0]) == norm(coll2):
                                    how = "I7(enumerate index)"
                R.ob("C16.R2", "index:%s" % ("full-range" if how and how.startswith("total") else fmt(ix)[:40]), how is not None, "indexing %s with %s is not behind an emptiness rejection of the same collection" % (fmt(coll)[:100], fmt(ix)[:60]), loc=b.loc(bi), fn=k)
                continue
            if nm in RATIO:
                di = RATIO[nm]
                args = [c.T.operand(a, bi, idx) for a in t["args"]]
                how = None
                if di is not None and di < len(args):
                    den = args[di]
                    ci = const_int(den)
                    if ci is not None and ci != 0:
                        how = "constant %d" % ci
                    else:
                        zp = lambda x, den=den: x[0] == "call" and x[1] in ("cosmwasm_std::Uint128::is_zero",) and norm(x[2][0]) == norm(den)
                        w = c.assume_bool(zp, True).settle()
                        zt = [1 for _, atom in c.atoms() if atom[0] == "bool" and any(zp(s_) for s_ in subterms(atom[1]))]
                        if not zt:
                            # the test may live in a predicate helper (`state.has_liquid_stake()`)
                            from engine.analysis import bool_world_edges as _bwe
                            zt = [1] * _bwe(c, zp, True)[1]
                        if zt and bi not in w.T.reach:
                            how = "guarded by is_zero()"
                    if how is None and (k, nm.split("::")[-1]) in RATIO_JUSTIFIED:
                        how = "justified"
                    if how is None and den[0] == "param" and b.kind == "fn":
                        # the denominator is an argument of a small arithmetic helper: judge it at the call sites
                        verdicts = []
                        for cb2 in prog.fn_bodies(b.crate):
                            for cbi, ct in cb2.calls():
                                if ct.get("rkey") != k:
                                    continue
                                cc2 = Ctx(cb2)
                                a2 = cc2.T.operand(ct["args"][den[1] - 1], cbi, len(cb2.blocks[cbi]["stmts"]))
                                ok2 = const_int(a2) not in (None, 0)
                                if not ok2:
                                    w2 = cc2.assume_bool(lambda x, a2=a2: x[0] == "call" and x[1] in ("cosmwasm_std::Uint128::is_zero",) and norm(x[2][0]) == norm(a2), True).settle()
                                    zt2 = [1 for _, atom in cc2.atoms() if atom[0] == "bool" and any(s_[0] == "call" and s_[1] == "cosmwasm_std::Uint128::is_zero" and norm(s_[2][0]) == norm(a2) for s_ in subterms(atom[1]))]
                                    ok2 = bool(zt2) and cbi not in w2.T.reach
                                if not ok2 and (cb2.key, nm.split("::")[-1]) in RATIO_JUSTIFIED:
                                    ok2 = True
                                verdicts.append(ok2)
                        if verdicts and all(verdicts):
                            how = "guarded / justified at every call site"
                    def _root(x):
                        while x[0] == "field":
                            x = x[1]
                        return x
                    if how is None and _root(den)[0] == "param" and b.kind == "fn":
                        # relational form: the helper returns early unless some argument N is non-zero, and every caller
                        # has established den >= N before the call: den >= N > 0.  den may be a field of an argument
                        # (`self.liquid` of a value type built by the caller): it is read in the caller's terms.
                        from engine.analysis import resolve_terms as _rt16
                        nz_args = []
                        for a_ in args:
                            if a_[0] == "param" and a_ != den:
                                wz = c.assume_bool(lambda x, a_=a_: x[0] == "call" and x[1].endswith("::is_zero") and x[2] and norm(x[2][0]) == norm(a_), True).settle()
                                if bi not in wz.T.reach:
                                    nz_args.append(a_)

                        def subst(x, m_):
                            if not isinstance(x, tuple) or not x:
                                return x
                            if x[0] == "param" and x[1] in m_:
                                return m_[x[1]]
                            return tuple(subst(y, m_) if isinstance(y, tuple) else y for y in x)

                        def caller_ok(key, den_, N_, depth_=2):
                            vs = []
                            for cb2 in prog.fn_bodies():
                                if "::tests::" in cb2.key or cb2.crate not in ("staking", "treasury", "milky_way"):
                                    continue
                                for cbi, ct in cb2.calls():
                                    if ct.get("rkey") != key:
                                        continue
                                    if (cb2.key, nm.split("::")[-1]) in RATIO_JUSTIFIED:
                                        vs.append(True)
                                        continue
                                    cc2 = Ctx(cb2)
                                    ix = len(cb2.blocks[cbi]["stmts"])
                                    m_ = {i_ + 1: cc2.T.operand(a2_, cbi, ix) for i_, a2_ in enumerate(ct["args"])}
                                    aD, aN = _rt16(prog, subst(den_, m_), 2), _rt16(prog, subst(N_, m_), 2)
                                    if _root(aD)[0] == "param" and aN[0] == "param" and depth_ > 0 and cb2.kind == "fn":
                                        vs.append(caller_ok(cb2.key, aD, aN, depth_ - 1))  # a wrapper that passes its own arguments on
                                        continue
                                    rem_, n_ = set(), 0
                                    for abi, atom in cc2.atoms():
                                        if atom[0] != "bool":
                                            continue
                                        rel = cmp_rel(atom[1], lambda x: norm(x) == norm(aD), lambda y: norm(y) == norm(aN))
                                        if rel is None:
                                            continue
                                        n_ += 1
                                        val = "<" in rel
                                        for tg in atom[2][not val]:
                                            if tg not in atom[2][val]:
                                                rem_.add((abi, tg))
                                    w2 = cc2.with_removed(rem_).settle()
                                    vs.append(n_ >= 1 and cbi not in w2.T.reach)
                            return bool(vs) and all(vs)

                        for N_ in nz_args:
                            if caller_ok(k, den, N_):
                                how = "den >= N established by every caller and N != 0 here"
                                break
                    if how is None:
                        # the denominator is a field of an argument / of the receiver (`self.batch_total_liquid_stake`
                        # in a method of the batch, possibly inside its closure): the helper is as safe as its callers,
                        # each of which must be a reviewed site for this kind of ratio (the reason given there is about
                        # the value, not about where the division is written)
                        root = den
                        while root[0] == "field":
                            root = root[1]
                        kf = k.split("::{closure")[0]
                        if root[0] in ("param", "capture") and kf != k or (root[0] == "param" and den[0] == "field"):
                            callers = [cb2.key.split("::{closure")[0] for cb2 in prog.fn_bodies() for cbi, ct in cb2.calls() if ct.get("rkey") == kf]
                            # (through one more level of helper: native_share -> claimable..; callers of callers)
                            if callers and all((c_, nm.split("::")[-1]) in RATIO_JUSTIFIED for c_ in callers):
                                how = "every caller is a reviewed site"
                    R.ob("C16.R5", "ratio:%s" % nm.split("::")[-1] + ":" + descr(prog, den), how is not None, "%s with denominator %s: the denominator can be zero on this path (no is_zero() test of it dominates the call, not a constant, not in the reviewed table): division by zero panics" % (short(nm), fmt(den)[:120]), loc=b.loc(bi), fn=k)
    # R6: 128-bit products of amounts
    def is_mul128(t):
        nm = call_name(t) or ""
        res = t.get("resolved") or ""
        if nm in ("std::ops::Mul::mul", "std::ops::MulAssign::mul_assign") and "cosmwasm_std::Uint128" in res.split(" as ")[0]:
            return True
        return nm in ("cosmwasm_std::Uint128::checked_mul", "cosmwasm_std::Uint128::pow", "cosmwasm_std::Uint128::checked_pow", "cosmwasm_std::Uint128::wrapping_mul", "cosmwasm_std::Uint128::saturating_mul", "cosmwasm_std::Uint128::full_mul") and nm != "cosmwasm_std::Uint128::full_mul"
    muls = []
    for k in bodies:
        b = prog.bodies[k]
        for bi, t in b.calls():
            if is_mul128(t):
                muls.append((k, b.loc(bi), call_name(t)))
    for k, loc, nm in muls:
        R.ob("C16.R6", "uint128-product", False, "%s on Uint128: the product of two amounts within the property's bounds (1e27 each) does not fit 128 bits and panics; use multiply_ratio (256-bit intermediate)" % short(nm), loc=loc, fn=k)
    R.ob("C16.R6", "no-uint128-product", not muls, "%d 128-bit products of amounts" % len(muls), fn="entry points")
    fxm = json.load(open(os.path.join(VERIF, "fixtures", "mul_body.json")))
    fbm = Body(prog, "fixture", fxm)
    R.ob("C16.R6", "positive-control", len([1 for _, t in fbm.calls() if is_mul128(t)]) == 1, "the 128-bit-product detector did not fire on the committed control body", fn="fixtures/mul_body.json")
    # R7: panicking subtraction of amounts (`a - b` / `a -= b` on Uint128 / Uint256 / Decimal)
    def is_sub_amount(t):
        nm = call_name(t) or ""
        res = (t.get("resolved") or "").split(" as ")[0]
        return nm in ("std::ops::Sub::sub", "std::ops::SubAssign::sub_assign") and any(x in res for x in ("cosmwasm_std::Uint128", "cosmwasm_std::Uint256", "cosmwasm_std::Decimal", "cosmwasm_std::Uint64"))
    nsub = 0
    for k in bodies:
        b = prog.bodies[k]
        c = Ctx(b)
        for bi, t in b.calls():
            if not is_sub_amount(t):
                continue
            nsub += 1
            idx = len(b.blocks[bi]["stmts"])
            a_, b_ = [c.T.operand(x, bi, idx) for x in t["args"][:2]]
            # unreachable in the world a < b (a comparison of the same two operands dominates the site)
            rem = set()
            n = 0
            for abi, atom in c.atoms():
                if atom[0] != "bool":
                    continue
                rel = cmp_rel(atom[1], lambda x: norm(x) == norm(a_), lambda y: norm(y) == norm(b_))
                if rel is None:
                    continue
                n += 1
                val = "<" in rel
                for tg in atom[2][not val]:
                    if tg not in atom[2][val]:
                        rem.add((abi, tg))
            w = c.with_removed(rem).settle()
            okk = n >= 1 and bi not in w.T.reach
            R.ob("C16.R7", "sub:" + descr(prog, b_), okk, "%s - %s with the panicking operator: nothing on this path excludes %s < %s (use checked_sub and return the typed error)" % (fmt(a_)[:80], fmt(b_)[:80], fmt(a_)[:40], fmt(b_)[:40]), loc=b.loc(bi), fn=k)
    R.info("C16.R7", "panicking amount subtractions reachable from entry points: %d" % nsub)
    fxs = json.load(open(os.path.join(VERIF, "fixtures", "sub_body.json")))
    fbs = Body(prog, "fixture", fxs)
    R.ob("C16.R7", "positive-control", len([1 for _, t in fbs.calls() if is_sub_amount(t)]) == 1, "the panicking-subtraction detector did not fire on the committed control body", fn="fixtures/sub_body.json")
    R.floor("C16.R1", "unwrap / index / bounds sites inspected", nsites, 30)
    R.call_sites += nsites
    stale = set(JUSTIFIED) - used_just
    for s_ in sorted(stale):
        R.info("C16.R2", "justification table entry no longer used: %s" % (s_,))
    # ------------------------------------------------------------ structural obligations of I4
    # admin-always-some
    sets = []
    for site, c in shared.site_contexts(prog, "treasury", env).items():
        for o in storage_ops_deep(prog, c, env.depth):
            if o["type"] == "Admin" and o["op"] == "set":
                sets.append(o)
                R.ob("C16.R2", "I4:admin-always-some:" + site, o["args"][2][0] == "agg" and o["args"][2][2] == "Some", "Admin::set(%s)" % fmt(o["args"][2])[:80], loc=o["loc"], fn=o["fn"])
    R.floor("C16.R2", "treasury Admin::set sites", len(sets), 2)
    # state-saved-at-instantiation
    ic = Ctx(prog.body("staking::contract::instantiate"))
    sv = [o for o in storage_ops_deep(prog, ic, env.depth) if o["kind"] == "w" and ns_of(prog, o["args"][0]) == "state"]
    from engine.analysis import must_pass
    R.ob("C16.R2", "I4:state-saved-at-instantiation", len(sv) >= 1 and all(must_pass(ic, o["root_bb"]) for o in sv), "instantiate can succeed without saving STATE", fn="staking::contract::instantiate")
    # timeout-built-with-timestamp: descriptor already encodes it (timestamp(with_timestamp))
    # received-set-with-status
    shared.received_set_with_status(R, env, prog, "C16.R2", "I4:received-set-with-status")
    # ------------------------------------------------------------ R4
    for k, loc, nm in explicit:
        R.ob("C16.R4", "explicit-panic", False, "explicit panic (%s) reachable from an entry point" % nm, loc=loc, fn=k)
    R.ob("C16.R4", "no-explicit-panic", not explicit, "%d explicit panic sites" % len(explicit), fn="entry points")
    fx = json.load(open(os.path.join(VERIF, "fixtures", "panic_body.json")))
    fb = Body(prog, "fixture", fx)
    hits = [call_name(t) for _, t in fb.calls() if is_panic_call(call_name(t) or "")]
    R.ob("C16.R4", "positive-control", len(hits) == 1, "the explicit-panic detector did not fire on the committed control body", fn="fixtures/panic_body.json")
    R.info("C16", "primitive arithmetic assert sites (not decided): %d: %s" % (len(arith), arith[:40]))
