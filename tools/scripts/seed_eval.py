#!/usr/bin/env python3
"""Confirm and evaluate one independently written breaking change.
usage: seed_eval.py <dir with patch.diff demo.rs NOTES.md> <property id> <name> [--keep-on-fail]
 1. patch applies to a scratch copy of the current /repo (outside /repo and /verif)
 2. the repository's own suite is green with the patch
 3. the demonstration fails with the patch and passes without it
 4. every registered check is run (static analysis only) against the patched copy
writes /verif/seeded/<name>/{patch.diff,demo.rs,NOTES.md,meta.json}; removes every scratch copy."""
import json, os, re, shutil, subprocess, sys, tempfile, time
VERIF = os.path.dirname(os.path.dirname(os.path.dirname(os.path.abspath(__file__))))
REPO = "/repo"
ENV = dict(os.environ, CARGO_NET_OFFLINE="true", CARGO_TARGET_DIR=os.environ.get("VERIF_TESTS_TARGET", os.path.join(VERIF, ".cache", "target-tests")))

def sh(cmd, cwd, env=ENV, timeout=3600):
    r = subprocess.run(cmd, cwd=cwd, env=env, capture_output=True, text=True, timeout=timeout)
    return r.returncode, r.stdout + r.stderr

def scratch():
    d = tempfile.mkdtemp(prefix="vseed-", dir="/tmp")
    subprocess.run(["rsync", "-a", "--exclude", "target", "--exclude", ".git", REPO + "/", d + "/"], check=True)
    return d

def demo_place(demo_text):
    m = re.search(r"((?:contracts|packages)/[\w\-]+/tests)/?([\w\-]*\.rs)?", demo_text)
    d = m.group(1) if m else "contracts/staking/tests"
    return d

def main():
    src, pid, name = sys.argv[1], sys.argv[2], sys.argv[3]
    patch = os.path.join(src, "patch.diff")
    demo = os.path.join(src, "demo.rs")
    meta = {"property": pid, "name": name, "at": time.strftime("%Y-%m-%d %H:%M"), "steps": {}}
    demo_text = open(demo).read()
    place = demo_place(demo_text[:3000])
    crate = {"contracts/staking/tests": "staking", "contracts/treasury/tests": "treasury", "packages/initia-proto/tests": "initia-proto", "packages/milky_way/tests": "milky_way"}.get(place, "staking")
    tname = "verif_seed_demo"
    feat = ["--no-default-features", "--features", "miniwasm"] if re.search(r"--features\s+miniwasm", demo_text[:4000]) else []
    meta["demo_features"] = feat
    # --- without the patch: demo passes
    d0 = scratch()
    try:
        os.makedirs(os.path.join(d0, place), exist_ok=True)
        shutil.copy(demo, os.path.join(d0, place, tname + ".rs"))
        rc, out = sh(["cargo", "test", "--offline", "-p", crate, "--test", tname] + feat, d0)
        meta["steps"]["demo_without_change"] = {"cmd": "cargo test --offline -p %s --test %s" % (crate, tname), "passed": rc == 0, "tail": out[-600:] if rc else ""}
    finally:
        shutil.rmtree(d0, ignore_errors=True)
    # --- with the patch
    d1 = scratch()
    try:
        rc, out = sh(["git", "apply", "--whitespace=nowarn", os.path.abspath(patch)], d1)
        if rc != 0:
            rc, out = sh(["patch", "-p1", "-s", "--no-backup-if-mismatch", "-i", os.path.abspath(patch)], d1)
        meta["steps"]["patch_applies"] = rc == 0
        if rc != 0:
            meta["verdict"] = "rejected: patch does not apply: " + out[-300:]
            return finish(meta, src, name, keep=False)
        rc, out = sh(["cargo", "test", "--workspace", "--no-fail-fast", "--offline"], d1)
        res = re.findall(r"test result: (\w+)\. (\d+) passed; (\d+) failed", out)
        passed = sum(int(p) for _, p, _ in res)
        failed = sum(int(f) for _, _, f in res)
        meta["steps"]["suite_with_change"] = {"cmd": "cargo test --workspace --no-fail-fast --offline", "green": rc == 0, "passed": passed, "failed": failed}
        rcm, outm = sh(["cargo", "check", "--offline", "-p", "staking", "--no-default-features", "--features", "miniwasm"], d1)
        meta["steps"]["miniwasm_compiles"] = rcm == 0
        os.makedirs(os.path.join(d1, place), exist_ok=True)
        shutil.copy(demo, os.path.join(d1, place, tname + ".rs"))
        rc2, out2 = sh(["cargo", "test", "--offline", "-p", crate, "--test", tname] + feat, d1)
        meta["steps"]["demo_with_change"] = {"failed_as_required": rc2 != 0, "tail": out2[-500:] if rc2 else ""}
        os.remove(os.path.join(d1, place, tname + ".rs"))
        # --- the checks (static)
        outd = tempfile.mkdtemp(prefix="vout-", dir="/tmp")
        fired = {}
        try:
            for i in range(1, 21):
                cid = "C%02d" % i
                r = subprocess.run([os.path.join(VERIF, "check"), cid], cwd=VERIF, capture_output=True, text=True, env=dict(os.environ, VERIF_REPO=d1, VERIF_OUT=outd))
                det = [l.strip() for l in r.stdout.splitlines() if l.startswith("  ")]
                if r.returncode == 1:
                    fired[cid] = [" ".join(x.split()[2:4]) + " :: " + x.split("::", 1)[-1].strip()[:160] if "::" in x else x[:200] for x in det][:6]
                elif r.returncode != 0:
                    fired[cid] = ["ERROR exit=%d %s" % (r.returncode, (r.stdout + r.stderr)[-200:])]
        finally:
            shutil.rmtree(outd, ignore_errors=True)
        meta["checks_fired"] = fired
        meta["caught_by_target_property"] = pid in fired and not fired[pid][0].startswith("ERROR")
        ok = meta["steps"]["demo_without_change"]["passed"] and meta["steps"]["suite_with_change"]["green"] and meta["steps"]["demo_with_change"]["failed_as_required"]
        meta["verdict"] = "confirmed" if ok else "rejected: " + ", ".join(k for k, v in (("demo does not pass on the unchanged tree", not meta["steps"]["demo_without_change"]["passed"]), ("suite not green with the change", not meta["steps"]["suite_with_change"]["green"]), ("demo does not fail with the change", not meta["steps"]["demo_with_change"]["failed_as_required"])) if v)
    finally:
        shutil.rmtree(d1, ignore_errors=True)
    return finish(meta, src, name, keep=meta["verdict"] == "confirmed")

def finish(meta, src, name, keep):
    print(json.dumps({k: meta[k] for k in meta if k != "steps"}, indent=1))
    print(json.dumps(meta["steps"], indent=1)[:1500])
    if keep:
        out = os.path.join(VERIF, "seeded", name)
        os.makedirs(out, exist_ok=True)
        for f in ("patch.diff", "demo.rs", "NOTES.md"):
            if os.path.exists(os.path.join(src, f)):
                shutil.copy(os.path.join(src, f), os.path.join(out, f))
        json.dump(meta, open(os.path.join(out, "meta.json"), "w"), indent=1)
    return 0

if __name__ == "__main__":
    sys.exit(main())
