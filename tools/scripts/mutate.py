#!/usr/bin/env python3
"""Negative-control runner: apply one patch to a scratch copy of /repo (outside /repo and /verif),
run the given checks against it (static analysis only — the mutant is never executed) and remove
the copy.  usage: mutate.py <patch> <ID> [<ID>...] [--keep] [--tests]
prints one line per check: `<patch> <ID> exit=<n> <first violation line>`"""
import os, shutil, subprocess, sys, tempfile, json
VERIF = os.path.dirname(os.path.dirname(os.path.dirname(os.path.abspath(__file__))))
REPO = os.environ.get("VERIF_REPO", "/repo")

def make_scratch(patch):
    d = tempfile.mkdtemp(prefix="vscratch-", dir=os.environ.get("VERIF_SCRATCH", "/tmp"))
    subprocess.run(["rsync", "-a", "--exclude", "target", "--exclude", ".git", REPO + "/", d + "/"], check=True)
    r = subprocess.run(["patch", "-p1", "-s", "--no-backup-if-mismatch", "-i", os.path.abspath(patch)], cwd=d, capture_output=True, text=True)
    if r.returncode != 0:
        shutil.rmtree(d, ignore_errors=True)
        return None, r.stdout + r.stderr
    return d, ""

def run_checks(patch, ids, keep=False, tests=False):
    d, err = make_scratch(patch)
    res = []
    if d is None:
        return [{"patch": patch, "id": i, "status": "skipped", "why": "patch does not apply: " + err.strip()[:200]} for i in ids]
    out = tempfile.mkdtemp(prefix="vout-", dir=os.environ.get("VERIF_SCRATCH", "/tmp"))
    try:
        if tests:
            t = subprocess.run(["cargo", "test", "--workspace", "--offline", "-q"], cwd=d, capture_output=True, text=True,
                               env=dict(os.environ, CARGO_NET_OFFLINE="true", CARGO_TARGET_DIR=os.path.join(VERIF, ".cache", "target-tests")))
            res.append({"patch": patch, "id": "tests", "status": "pass" if t.returncode == 0 else "FAIL", "why": (t.stdout + t.stderr)[-300:] if t.returncode else ""})
        for i in ids:
            env = dict(os.environ, VERIF_REPO=d, VERIF_OUT=out)
            r = subprocess.run([os.path.join(VERIF, "check"), i], cwd=VERIF, capture_output=True, text=True, env=env)
            lines = [l for l in r.stdout.splitlines() if l.startswith("VIOLATION") or l.startswith("  ")]
            detail = [l for l in r.stdout.splitlines() if l.startswith("  ")]
            res.append({"patch": patch, "id": i, "status": "fired" if r.returncode == 1 else ("silent" if r.returncode == 0 else "error"),
                        "why": (detail[0].strip()[:400] if detail else (r.stdout + r.stderr)[-400:] if r.returncode == 2 else ""), "n": len([l for l in lines if l.startswith("VIOLATION")])})
    finally:
        shutil.rmtree(out, ignore_errors=True)
        if not keep:
            shutil.rmtree(d, ignore_errors=True)
    return res

if __name__ == "__main__":
    a = [x for x in sys.argv[1:] if not x.startswith("--")]
    for r in run_checks(a[0], a[1:], keep="--keep" in sys.argv, tests="--tests" in sys.argv):
        print("%-40s %-6s %-7s n=%s %s" % (os.path.basename(r["patch"]), r["id"], r["status"], r.get("n", "-"), r["why"]))
