"""C15 Rates posted to the oracle are the post-transaction rates; the oracle is optional."""
from .common import *
from . import shared
from .shared import same, agg_field, lst_denom
from engine.analysis import storage_ops_deep, must_pass, aggregates_deep, inline_walk, call_sites

CRATE = "staking"
MUST_POST = ["LiquidStake", "SubmitBatch", "ReceiveRewards", "ResumeContract"]
# reviewed readers of ProtocolChainConfig.oracle_address (role -> reason)
ORACLE_READERS = {
    "poster": "builds the PostRates envelope",
    "validate": "UnsafeProtocolChainConfig::validate constructs the section",
    "config-query": "Config query copies the section",
    "migration": "layout migrations copy / re-validate the field",
}


def postrates_sites(prog, hctx, env):
    out = []
    for c, path, bi, si, t in aggregates_deep(prog, hctx, lambda adt, var: adt.endswith("oracle::Oracle") and var == "PostRates", env.depth + 1):
        out.append({"ctx": c, "path": path, "bb": bi, "term": t, "root_bb": path[0][1] if path else bi, "loc": c.body.loc(bi, si)})
    return out


def oracle_addr_pred(prog):
    def f(t):
        base, path = field_path(t)
        return path[-2:] == ["protocol_chain_config", "oracle_address"] or (path[-1:] == ["oracle_address"] and True)
    return f


def run(R, env):
    prog = env.prog("default")
    R.rule("C15.R1", "ordering: in every handler that changes total_native_token or total_liquid_stake_token, the rates (re-read from STATE) are computed only after the last STATE write: a STATE write lies on every path to the rate computation and none is reachable after it")
    R.rule("C15.R2", "coverage: LiquidStake, SubmitBatch, ReceiveRewards and ResumeContract emit the poster's messages in the Response of every success path")
    R.rule("C15.R3", "content: rates = (from_ratio(native, lst), from_ratio(lst, native)) of the STORED state behind the zero-LST guard; PostRates{redemption_rate <- .0, purchase_rate <- .1, denom <- liquid_stake_token_denom}; envelope MsgExecuteContract{sender: contract, contract: oracle address, funds: []}; the State query's rate is the same .1")
    R.rule("C15.R4", "optional oracle: in the world oracle_address=None no unwrap of it is reachable and no message is built; in the world Some exactly one message; no other function reads oracle_address")
    sites = shared.site_contexts(prog, CRATE, env)
    ch, _ = shared.field_change_sites(prog, env, CRATE, "state", ["total_native_token", "total_liquid_stake_token"], sites)
    changing = set(ch.get("total_native_token", {})) | set(ch.get("total_liquid_stake_token", {}))
    changing.discard("instantiate")
    R.floor("C15.R1", "handlers changing the totals", len(changing), 4)
    for s in sorted(changing):
        R.ob("C15.R2", "must-post-table:" + s, s in MUST_POST, "%s changes the staked/LST totals but is not in the reviewed list of rate-posting handlers %s" % (s, MUST_POST), fn=sites[s].body.key)
    n_post = 0
    poster_bodies = set()
    envelope_bodies = set()
    for s in MUST_POST:
        if s not in sites:
            R.ob("C15.R2", s + ":dispatched", False, "no handler", fn="staking::contract::execute")
            continue
        h = sites[s]
        hk = h.body.key
        prs = postrates_sites(prog, h, env)
        R.ob("C15.R2", s + ":posts", len(prs) == 1, "found %d PostRates constructions reachable from %s" % (len(prs), s), fn=hk)
        for p in prs:
            n_post += 1
            poster_bodies.add(p["ctx"].body.key)
            rb = p["root_bb"]
            # R2: on every success path and in the response
            inresp = shared.response_contains_call_at(h, rb) if p["path"] else True
            R.ob("C15.R2", s + ":poster-on-every-success-path", must_pass(h, rb) and inresp, "the oracle message is not in the Response of every success path", loc=h.body.loc(rb), fn=hk)
            # R3 content of the message (terms are in the handler's vocabulary)
            t = p["term"]
            red, pur, den = agg_field(t, "redemption_rate"), agg_field(t, "purchase_rate"), agg_field(t, "denom")
            rc = None
            okc = False
            comps = ("0", "1")
            if red is not None and pur is not None and red[0] == "field" and pur[0] == "field" and red[1] == pur[1] and red[1][0] == "call":
                rc = red[1]
                # which component is which is decided by the formula (check_rates_fn): the one posted as redemption
                # rate must be from_ratio(staked, lst), the one posted as purchase rate from_ratio(lst, staked)
                comps = (red[2], pur[2])
                okc = red[2] != pur[2]
            R.ob("C15.R3", s + ":rate-components", okc, "PostRates{redemption_rate: %s, purchase_rate: %s}; expected two different components of one rate computation" % (fmt(red or ("none",))[:100], fmt(pur or ("none",))[:100]), loc=p["loc"], fn=hk)
            R.ob("C15.R3", s + ":denom", lst_denom(prog, den), "PostRates.denom = %s, expected config.liquid_stake_token_denom" % fmt(den or ("none",))[:100], loc=p["loc"], fn=hk)
            src = rate_source(prog, h, rc, env, inside=p) if rc is not None else (None, None, None, None)
            ws = [op for op in storage_ops_deep(prog, h, env.depth) if op["kind"] == "w" and ns_of(prog, op["args"][0]) == "state" and item_crate(op["args"][0]) == CRATE]
            if src[0] == "memory":
                # rates of an in-memory state: it must be the state this transaction leaves in storage
                okS = is_post_state(prog, h, src[1], env)
                R.ob("C15.R1", s + ":no-state-write-after-rates", okS, "the rates are computed from %s, which is not the value this handler leaves in STATE (writes: %s): the posted rates are not those of the state after this transaction" % (fmt(src[1])[:160], [fmt(o["args"][2])[:100] for o in ws]), loc=h.body.loc(rb), fn=hk)
                R.ob("C15.R1", s + ":state-write-dominates-rates", bool(ws) and all(must_pass(h, o["root_bb"]) for o in ws), "the state the rates are computed from is not saved on every success path", loc=h.body.loc(rb), fn=hk)
                if rc is not None:
                    check_rates_fn(R, prog, rc, s, hk, nat=src[2], lst=src[3], comps=comps)
            else:
                # R1: ordering relative to STATE writes (the rate computation re-reads STATE)
                after = [op for op in ws if op["root_bb"] != rb and h.body.reaches(rb, [op["root_bb"]], h.removed)]
                dom = [op for op in ws if dominates(h, op["root_bb"], rb)]
                R.ob("C15.R1", s + ":no-state-write-after-rates", src[0] == "stored" and not after, "STATE is written at %s after the rates were computed at %s: the posted rates are those of the state BEFORE this transaction" % ([o["loc"] for o in after], h.body.loc(rb)), loc=h.body.loc(rb), fn=hk)
                R.ob("C15.R1", s + ":state-write-dominates-rates", bool(dom), "no STATE write lies on every path to the rate computation at %s" % h.body.loc(rb), loc=h.body.loc(rb), fn=hk)
                if rc is not None:
                    check_rates_fn(R, prog, rc, s, hk, comps=comps, **({"nat": src[2], "lst": src[3]} if src[2] is not None else {}))
        # envelope
        for c, path, bi, si, t in aggregates_deep(prog, h, lambda adt, var: adt.endswith("wasm::v1::MsgExecuteContract"), env.depth + 1):
            snd, con, funds, msg = agg_field(t, "sender"), agg_field(t, "contract"), agg_field(t, "funds"), agg_field(t, "msg")
            good = snd is not None and is_contract_addr(snd)
            base, path_ = field_path(con[1] if con is not None and con[0] == "payload" else (con or ("none",)))
            good = good and path_[-2:] == ["protocol_chain_config", "oracle_address"]
            good = good and funds is not None and funds[0] == "call" and funds[1] in ("std::vec::Vec::new", "vec!") and not funds[2]
            from engine.analysis import forms as _f15
            # (the json may be built from a constructor helper: `serde_json::to_vec(&Oracle::post_rates(denom, &rates))`)
            msg_forms = ([msg] + (list(_f15(prog, msg, 2)) if any(s_[0] == "call" and prog.body(s_[1]) is not None for s_ in subterms(msg)) else [])) if msg is not None else []
            carries = any(s_[0] == "agg" and s_[1].endswith("oracle::Oracle") for f_ in msg_forms for s_ in subterms(f_))
            good = good and carries
            if carries:
                envelope_bodies.add(c.body.key.split("::{closure")[0])  # (built in a closure of the poster: `addr.map(|a| MsgExecuteContract { .. })`)
            R.ob("C15.R3", s + ":envelope", good, "MsgExecuteContract{sender: %s, contract: %s, funds: %s}; expected {contract address, configured oracle address, []} carrying the PostRates json" % (fmt(snd or ("none",))[:60], fmt(con or ("none",))[:100], fmt(funds or ("none",))[:40]), loc=c.body.loc(bi, si), fn=hk)
    R.floor("C15.R2", "poster sites", n_post, 4)

    # State query reports the same purchase rate
    q = prog.body("staking::contract::query")
    n_q = 0
    for c, path, bi, si, t in aggregates_deep(prog, Ctx(q), lambda adt, var: adt.endswith("msg::StateResponse"), env.depth + 1):
        n_q += 1
        r = agg_field(t, "rate")
        good = r is not None and r[0] == "field" and r[1][0] == "call"
        R.ob("C15.R3", "StateQuery:rate-is-purchase-rate", good, "StateResponse.rate = %s, expected the purchase-rate component of the rate computation" % fmt(r or ("none",))[:120], loc=c.body.loc(bi, si), fn=c.body.key)
        if good:
            src = rate_source(prog, c, r[1], env)
            qc = (None, r[2])  # the component must be the purchase-rate formula
            if src[0] == "memory":
                okq = src[1][0] == "payload" and is_load(prog, src[1], "state", CRATE)
                R.ob("C15.R3", "StateQuery:rates-of-the-stored-state", okq, "the State query computes its rate from %s, not from the stored state" % fmt(src[1])[:120], loc=c.body.loc(bi, si), fn=c.body.key)
                check_rates_fn(R, prog, r[1], "StateQuery", c.body.key, nat=src[2], lst=src[3], comps=qc)
            else:
                check_rates_fn(R, prog, r[1], "StateQuery", c.body.key, comps=qc, **({"nat": src[2], "lst": src[3]} if src[2] is not None else {}))
    R.floor("C15.R3", "StateResponse constructions", n_q, 1)

    # ---------------- R4 optional oracle
    # the poster is the function that builds the envelope (where the oracle address is read); the PostRates value it
    # carries may come from a constructor helper of its own
    if envelope_bodies:
        poster_bodies = set(envelope_bodies)
    for pk in sorted(poster_bodies):
        pb = prog.body(pk)
        pc = Ctx(pb)
        is_oa = lambda t: field_path(t)[1][-1:] == ["oracle_address"]
        for want, name in ((False, "None"), (True, "Some")):
            rem, n = world_edges(pc, is_oa, want)
            # also variant switches on the option (if let Some(..) = &config..oracle_address)
            w = pc.with_removed(rem).settle()
            R.worlds += 1
            unwraps = []
            for bi, t, args in call_sites(w, lambda nm: nm in ("std::option::Option::unwrap", "std::option::Option::expect")):
                if args and is_oa(args[0]):
                    unwraps.append(w.body.loc(bi))
            nmsg = 0
            from engine.analysis import resolve_terms as _rt2
            rt = _rt2(prog, w.T.return_term(), 1, None, w.assumptions)
            alts = rt[1] if rt[0] == "phi" else (rt,)
            counts = set()
            opt_ret = (pb.j.get("ret_ty") or "").startswith(("std::option::Option", "core::option::Option", "Option"))
            for a in alts:
                if opt_ret and ((a[0] == "agg" and a[2] == "None") or (a[0] == "call" and a[1] == "std::ops::FromResidual::from_residual")):
                    counts.add(0)  # an Option-returning poster: None is "no message", not a failure
                    continue
                if (a[0] == "agg" and a[2] == "Err") or (a[0] == "call" and a[1] == "std::ops::FromResidual::from_residual"):
                    continue
                counts.add(len([s_ for s_ in subterms(a) if s_[0] == "agg" and s_[1].endswith("wasm::v1::MsgExecuteContract")]))
            if want:
                R.ob("C15.R4", "oracle=Some:one-message", counts == {1}, "with an oracle configured the poster returns %s message(s) on its success paths, expected exactly 1" % sorted(counts), fn=pk)
            else:
                R.ob("C15.R4", "oracle=None:no-unwrap", not unwraps, "with no oracle configured (accepted by validation) the poster reaches `oracle_address.unwrap()` at %s: every stake/submit/reward/withdraw/resume panics" % unwraps, loc=unwraps[0] if unwraps else None, fn=pk)
                R.ob("C15.R4", "oracle=None:no-message", counts == {0} or (bool(unwraps) and counts <= {0, 1}), "with no oracle configured the poster still builds %s message(s)" % sorted(counts), fn=pk)
    R.floor("C15.R4", "poster bodies", len(poster_bodies), 1)
    # who reads oracle_address
    readers = {}
    for b in prog.fn_bodies(CRATE):
        reads = False
        for blk in b.blocks:
            if blk["cleanup"]:
                continue
            for st in blk["stmts"]:
                if _reads_field(st.get("rv"), "oracle_address"):
                    reads = True
            t = blk["term"]
            if t["k"] == "call":
                for a in t["args"]:
                    pl = a.get("c") or a.get("m")
                    if pl and any(isinstance(e, dict) and e.get("f") == "oracle_address" for e in pl["p"]):
                        reads = True
        if reads:
            readers[b.key] = b
    def role_of_reader(base, depth=2):
        if base in poster_bodies:
            return "poster"
        if _constructs(prog, base, "ProtocolChainConfig") and "migrations" not in base:
            return "validate"
        if _constructs(prog, base, "ConfigResponse"):
            return "config-query"
        if "::migrations::" in base:
            return "migration"
        if depth > 0:
            # a private helper of a reviewed reader (`self.validated_oracle_address()` called only from validate)
            callers = set(cb_.key.split("::{closure")[0] for cb_ in prog.fn_bodies(CRATE) for _, ct_ in cb_.calls() if ct_.get("rkey") == base and "::tests::" not in cb_.key)
            roles = set(role_of_reader(c_, depth - 1) for c_ in callers)
            if callers and len(roles) == 1 and None not in roles:
                return roles.pop()
        return None

    for k, b in readers.items():
        base = k.split("::{closure")[0]
        role = role_of_reader(base)
        R.ob("C15.R4", "oracle_address-reader:" + base.split("::", 1)[1], role in ORACLE_READERS, "%s reads oracle_address but is none of the reviewed readers %s: behaviour may differ between the oracle/no-oracle configurations" % (k, sorted(ORACLE_READERS)), loc="%s:%s" % (b.span["file"], b.span["line"]), fn=k)
    R.floor("C15.R4", "functions reading oracle_address", len(readers), 3)


def _reads_field(rv, name):
    if not rv:
        return False
    import json as _j
    return ('"f": "%s"' % name) in _j.dumps(rv)


def _constructs(prog, key, adt_suffix):
    for k in reachable_bodies(prog, [key]):
        if not k.startswith(key):
            continue
        b = prog.bodies[k]
        for blk in b.blocks:
            for st in blk["stmts"]:
                rv = st.get("rv") or {}
                if rv.get("agg") == "adt" and rv["adt"].endswith(adt_suffix):
                    return True
    return False


def dominates(h, a, b):
    """block a lies on every path from entry to block b"""
    if a == b:
        return True
    r = h.body.reachable(h.removed, removed_blocks=frozenset([a]))
    return b not in r


def must_not_precede(h, a, b):
    return False


def _components(rt):
    """named components of a tuple / struct valued term"""
    if rt[0] == "tuple":
        return {str(i): v for i, v in enumerate(rt[1])}
    if rt[0] == "agg":
        return {n: v for _, n, v in rt[3]}
    return {}


def check_rates_fn(R, prog, rc, site, hk, nat=None, lst=None, comps=("0", "1")):
    """rc = call term of the rate computation (a local function).  nat / lst recognise the staked
    and the LST total inside it (default: fields of the state the function loads from storage)."""
    cb = shared._body_of_call(prog, rc)
    if cb is None:
        R.ob("C15.R3", site + ":rates-fn", False, "rate computation %s is not a local function" % fmt(rc)[:80], fn=hk)
        return
    c = Ctx(cb, params={i + 1: a for i, a in enumerate(rc[2])})
    from engine.analysis import resolve_terms as _rt

    def settle_value(w_):
        """the value returned in world w_, with local helpers / conversions / named constants spelled out
        (`state.rates().into()`, `Rates::ZERO`)"""
        v = _rt(prog, w_.T.return_term(), 3, None, w_.assumptions)
        for _ in range(3):
            if v[0] == "item":
                ci = prog.const_init(v[1])
                if ci is None:
                    break
                v = _rt(prog, ci, 2)
            else:
                break
        return v
    RR = lambda t: norm(_rt(prog, t, 2))
    # nat / lst may be given as reference TERMS (in-memory state): compare after inlining pure helpers on both sides
    if nat is not None and not callable(nat):
        nref = RR(nat)
        nat = lambda t, nref=nref: RR(t) == nref
    if lst is not None and not callable(lst):
        lref = RR(lst)
        lst = lambda t, lref=lref: RR(t) == lref
    # (a field of a small value type built from the state — `Totals::from(&state).liquid` — is the state's field)
    nat = nat or (lambda t: loaded_field(prog, t, "state", ["total_native_token"], CRATE) or (t[0] == "field" and loaded_field(prog, _rt(prog, t, 2), "state", ["total_native_token"], CRATE)))
    lst = lst or (lambda t: loaded_field(prog, t, "state", ["total_liquid_stake_token"], CRATE) or (t[0] == "field" and loaded_field(prog, _rt(prog, t, 2), "state", ["total_liquid_stake_token"], CRATE)))
    is_lst_zero = lambda t: t[0] == "call" and t[1] == "cosmwasm_std::Uint128::is_zero" and lst(t[2][0])
    is_nat_zero = lambda t: t[0] == "call" and t[1] == "cosmwasm_std::Uint128::is_zero" and nat(t[2][0])
    rem, n = bool_world_edges(c, is_lst_zero, False)
    rem_n, _ = bool_world_edges(c, is_nat_zero, False)  # an additional zero-staked guard is allowed
    w = c.with_removed(rem | rem_n).settle()
    rt = settle_value(w)
    fr = lambda t, a, b: t[0] == "call" and t[1] == "cosmwasm_std::Decimal::from_ratio" and a(t[2][0]) and b(t[2][1])
    cs = _components(rt)
    good = n >= 1 and len(cs) == 2 and (comps[0] is None or (comps[0] in cs and fr(cs[comps[0]], nat, lst))) and comps[1] in cs and fr(cs[comps[1]], lst, nat)
    R.ob("C15.R3", site + ":rates-formula", good, "with LST > 0 (and a non-zero staked total) the rate computation returns %s; expected (from_ratio(staked, lst), from_ratio(lst, staked)) of the post-transaction state" % fmt(rt)[:240], fn=cb.key)
    rem, n2 = bool_world_edges(c, is_lst_zero, True)
    w0 = c.with_removed(rem).settle()
    rt0 = settle_value(w0)
    z = lambda t: t[0] == "call" and t[1] == "cosmwasm_std::Decimal::zero"
    cs0 = _components(rt0)
    good0 = n2 >= 1 and len(cs0) == 2 and all(z(v) for v in cs0.values())
    R.ob("C15.R3", site + ":zero-lst-guard", good0, "with LST = 0 the rate computation returns %s; expected (0, 0) without dividing" % fmt(rt0)[:160], fn=cb.key)


def rate_source(prog, h, rc, env, inside=None):
    """where do the totals of the rate computation `rc` come from?
       ('stored', None, None, None)      the function loads STATE itself (ordering matters: R1)
       ('memory', S, nat_term, lst_term) it is given the totals of an in-memory state S
       (None, ..)                        unrecognised"""
    cb = shared._body_of_call(prog, rc)
    if cb is None:
        return (None, None, None, None)
    from engine.analysis import storage_ops_deep as sod
    loads = [o for o in sod(prog, Ctx(cb), 2) if o["op"] in ("load", "may_load") and ns_of(prog, o["args"][0]) == "state"]
    if loads:
        return ("stored", None, None, None)
    # candidates for the in-memory state S: values this handler writes to STATE, and STATE loads /
    # STATE.update results that occur inside the arguments
    from engine.mir import field_of
    cands = []
    for o in sod(prog, h, env.depth):
        if o["kind"] == "w" and ns_of(prog, o["args"][0]) == "state" and item_crate(o["args"][0]) == CRATE and o["op"] == "save":
            cands.append(o["args"][2])
    for a in rc[2]:
        for s_ in subterms(a):
            if s_[0] == "payload":
                c_ = shared.unwrap_payload(s_)
                if c_[0] == "call" and c_[1] in ("cw_storage_plus::Item::update", "cw_storage_plus::Item::load") and ns_of(prog, c_[2][0]) == "state":
                    cands.append(s_)
    args_n = [norm(a) for a in rc[2]]
    if inside is not None and inside.get("path"):
        # Rates::of(&STATE.load(storage)?) inside the poster: the state is re-read where the rates are computed,
        # which is the `stored` case (ordering against the handler's STATE writes is what matters)
        rb = inside["root_bb"]
        for o in sod(prog, h, env.depth):
            if o["op"] == "load" and ns_of(prog, o["args"][0]) == "state" and item_crate(o["args"][0]) == CRATE and o["root_bb"] == rb and o["fn"] != h.body.key:
                S = ("payload", ("call", "cw_storage_plus::Item::load", tuple(o["args"][:2])), "Ok/Some")
                for a in rc[2]:
                    al = shared.unwrap_payload(a) if a[0] == "payload" else a
                    if al[0] == "call" and al[1] == "cw_storage_plus::Item::load" and ns_of(prog, al[2][0]) == "state":
                        return ("stored", a, field_of(a, "total_native_token"), field_of(a, "total_liquid_stake_token"))
    for S in cands:
        nV, lV = field_of(S, "total_native_token"), field_of(S, "total_liquid_stake_token")
        if norm(nV) in args_n and norm(lV) in args_n:
            return ("memory", S, nV, lV)
        if norm(S) in args_n:  # a `&State` argument
            return ("memory", S, nV, lV)
    return (None, None, None, None)


def is_post_state(prog, h, S, env):
    """S is the value this handler leaves in STATE: the Ok payload of STATE.update(..), or identical by
    origin to the value of EVERY STATE write of the handler (so no later write changes it)."""
    c = shared.unwrap_payload(S) if S[0] == "payload" else S
    if S[0] == "payload" and c[0] == "call" and c[1] == "cw_storage_plus::Item::update" and ns_of(prog, c[2][0]) == "state":
        return True
    ws = [o for o in storage_ops_deep(prog, h, env.depth) if o["kind"] == "w" and ns_of(prog, o["args"][0]) == "state" and item_crate(o["args"][0]) == CRATE]
    if not ws:
        return False
    return all(o["op"] == "save" and norm(o["args"][2]) == norm(S) for o in ws)
