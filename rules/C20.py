"""C20 Protobuf bindings are wire-compatible and type URLs are canonical."""
import json
import os
from .common import *
from . import shared

VERIF = os.path.dirname(os.path.dirname(os.path.abspath(__file__)))
# reviewed differences against the reference rendering (FQN, tag) -> reason
KNOWN_DIFFS = {
    ("cosmos.base.query.v1beta1.PageResponse", "1"): "reference marks the bytes field `optional`; same tag and wire type (length-delimited); proto3 presence marker only",
}
FLOORS = {"includes": 110, "messages": 1328, "shared": 859, "urls": 27}

# scalar kinds -> wire type
WIRE = {}
for k in ("int32", "int64", "uint32", "uint64", "sint32", "sint64", "bool"):
    WIRE[k] = "varint"
for k in ("fixed64", "sfixed64", "double"):
    WIRE[k] = "i64"
for k in ("fixed32", "sfixed32", "float"):
    WIRE[k] = "i32"
for k in ("string", "message", "bytes"):
    WIRE[k] = "len"


def wire_of(kind):
    k = kind.split("=")[0]
    if k == "enumeration":
        return "varint"
    if k in ("map", "btree_map", "hash_map"):
        return "len"
    if k == "bytes":
        return "len"
    return WIRE.get(k, k)


def norm_kind(kind):
    k = kind.split("=")[0]
    if k in ("bytes",):
        return "bytes"
    if k in ("map", "btree_map", "hash_map"):
        return "map=" + kind.split("=", 1)[1].replace("::prost::alloc::", "") if "=" in kind else "map"
    if k == "enumeration":
        return "enumeration"
    if k == "oneof":
        return "oneof"
    return k


def type_ref(rust_ty):
    """the message type a field's Rust type names (innermost path inside Option / Vec / Box), or None for scalars"""
    t = rust_ty.replace(" ", "").rstrip(",")
    if t.startswith("(") and t.endswith(")"):
        t = t[1:-1].rstrip(",")  # a oneof variant's tuple field
    while True:
        m = None
        for w in ("::core::option::Option<", "::prost::alloc::vec::Vec<", "::prost::alloc::boxed::Box<", "Option<", "Vec<", "Box<"):
            if t.startswith(w) and t.endswith(">"):
                m = t[len(w):-1]
                break
        if m is None:
            break
        t = m.rstrip(",")
    if t in ("bool", "i32", "i64", "u32", "u64", "f32", "f64", "::prost::alloc::string::String", "String") or t.startswith(("::prost::alloc::vec::Vec<u8", "::prost::bytes", "::prost::alloc::collections", "::std::collections")):
        return None
    return t.replace("r#", "")


def resolve_path(module_rust_path, ref):
    """absolute Rust path of `ref` written inside module `module_rust_path` (super:: / self:: / crate:: aware)"""
    if ref.startswith("::"):
        return ref[2:]
    segs = module_rust_path.split("::") if module_rust_path else []
    parts = ref.split("::")
    if parts and parts[0] == "crate":
        return "::".join(parts[1:])
    while parts and parts[0] in ("super", "self"):
        if parts[0] == "super" and segs:
            segs = segs[:-1]
        parts = parts[1:]
    return "::".join(segs + parts)


class Schema:
    """the bindings' types by FQN with `pub use` re-exports resolved and message-typed fields resolved to FQNs"""

    def __init__(self, d):
        self.local = dict(d["local"])
        self.by_rust = {m["rust_path"].replace("r#", ""): fqn for fqn, m in self.local.items()}
        self.aliases = {}
        for u in d.get("uses", []):
            tgt = resolve_path(u["module"].replace("r#", ""), u["target"])
            f = self.by_rust.get(tgt)
            if f is not None and u["name"] != "*":
                fq = "%s.%s" % (u["scope"], u["name"])
                if fq not in self.local:
                    self.local[fq] = dict(self.local[f], alias_of=f, use_line=u["line"], use_file=u["file"])
                    self.aliases[fq] = f
                    self.by_rust[(u["module"].replace("r#", "") + "::" + u["name"])] = fq

    def ref_of(self, fqn, field):
        """FQN (or ('ext', path)) of the message type of a field of local[fqn]"""
        r = type_ref(field.get("rust_ty") or "")
        if r is None:
            return None
        m = self.local[fqn]
        mod = m["rust_path"].replace("r#", "").rsplit("::", 1)[0] if "::" in m["rust_path"] else ""
        ab = resolve_path(mod, r)
        f = self.by_rust.get(ab)
        return f if f is not None else ("ext", ab)

    def refs(self, fqn):
        out = {}
        m = self.local[fqn]
        if m["kind"] == "enum":
            return out
        for f in m["fields"]:
            if f["kind"].split("=")[0] in ("message", "oneof") or f["kind"].startswith(("map", "btree_map", "hash_map")):
                r = self.ref_of(fqn, f)
                if r is not None:
                    for t in f["tags"]:
                        out[t] = r
        return out


def card(label):
    l = label.split("(")[0]
    return {"": "single", "optional": "single", "required": "single", "repeated": "repeated"}.get(l, l), label


def run(R, env):
    d = env.proto()
    prog = env.prog("default")
    R.rule("C20.R1", "cross-reference: every message / oneof / enumeration whose fully-qualified name also exists in osmosis-std (independently generated) agrees with it on kind (hence wire type) and cardinality for every tag present in both")
    R.rule("C20.R2", "pinned schema: for every local type, no tag of the pinned baseline changes kind/cardinality or disappears (new tags and new types are wire-compatible and only counted)")
    R.rule("C20.R3", "round trip by construction: every message gets encode and decode from one #[derive(prost::Message)] field table: no hand-written impl of prost::Message for a local type, no struct under proto/ without the derive (gRPC clients aside), tags unique per message, every scalar kind known")
    R.rule("C20.R4", "type URLs: each impl TypeUrl has TYPE_URL == '/' + <package of the generated file that defines the type, via the include! map> + '.' + <Name>; where the reference crate has the same type its URL agrees")
    R.rule("C20.R5", "Any: from_any decodes only behind any.type_url == Self::TYPE_URL (the other arm is an error exit); to_any builds Any{type_url: Self::TYPE_URL, value: to_bytes(self)}")
    R.assume("prost-derive generates matching encoders and decoders from the field attributes (trusted); byte-level equality of encodings follows from schema equality and is not checked on bytes")
    R.assume("osmosis-std is an independent rendering of the shared cosmos/ibc/cosmwasm protobuf definitions")
    SC = Schema(d)
    local, ref = SC.local, d["reference"]
    R.ob("C20.R3", "sources-parse", not d["parse_errors"], "generated sources do not parse: %s" % d["parse_errors"][:3], fn="initia-proto")
    nmsg = len([1 for m in local.values() if m["kind"] == "message"])
    R.floor("C20.R3", "message structs", nmsg, FLOORS["messages"])
    R.floor("C20.R4", "include! sites", len(d["includes"]), FLOORS["includes"])
    # ------------------------------------------------------------ R1
    shared_fqn = [k for k in local if k in ref]
    R.floor("C20.R1", "types shared with the reference crate", len(shared_fqn), FLOORS["shared"])
    ntags = 0
    for fqn in shared_fqn:
        a, b = local[fqn], ref[fqn]
        if a["kind"] != b["kind"]:
            R.ob("C20.R1", fqn + ":kind", False, "local %s vs reference %s" % (a["kind"], b["kind"]), loc="%s:%s" % (a["file"], a["line"]), fn=fqn)
            continue
        if a["kind"] == "enum":
            mb = {f["name"]: f["tags"][0] for f in b["fields"]}
            for f in a["fields"]:
                if f["name"] in mb:
                    ntags += 1
                    if mb[f["name"]] != f["tags"][0]:
                        R.ob("C20.R1", "%s:%s" % (fqn, f["name"]), False, "enumeration value %s = %s locally, %s in the reference" % (f["name"], f["tags"][0], mb[f["name"]]), loc="%s:%s" % (a["file"], f["line"]), fn=fqn)
            continue
        mb = {}
        for f in b["fields"]:
            for t in f["tags"]:
                mb[t] = f
        # same field name => same tag(s): a moved tag is invisible to the per-tag comparison
        nb_ = {f["name"].replace("r#", ""): f for f in b["fields"]}
        for f in a["fields"]:
            g = nb_.get(f["name"].replace("r#", ""))
            if g is not None and sorted(g["tags"]) != sorted(f["tags"]):
                R.ob("C20.R1", "%s:%s:tag" % (fqn, f["name"]), False, "field `%s` has tag(s) %s locally but %s in the reference bindings" % (f["name"], f["tags"], g["tags"]), loc="%s:%s" % (a["file"], f["line"]), fn=fqn)
        for f in a["fields"]:
            for t in f["tags"]:
                g = mb.get(t)
                if g is None:
                    continue
                ntags += 1
                same_kind = norm_kind(f["kind"]) == norm_kind(g["kind"]) and wire_of(f["kind"]) == wire_of(g["kind"])
                same_card = card(f["label"])[0] == card(g["label"])[0] and ("packed" in f["label"]) == ("packed" in g["label"])
                exact = f["label"] == g["label"]
                if same_kind and same_card and exact:
                    continue
                if (fqn, t) in KNOWN_DIFFS and same_kind and same_card:
                    R.info("C20.R1", "%s tag %s: %s" % (fqn, t, KNOWN_DIFFS[(fqn, t)]))
                    continue
                R.ob("C20.R1", "%s:tag%s" % (fqn, t), False, "field `%s` is %s %s locally but %s %s in the reference bindings (different wire format)" % (f["name"], f["label"] or "single", f["kind"], g["label"] or "single", g["kind"]), loc="%s:%s" % (a["file"], f["line"]), fn=fqn)
    R.ob("C20.R1", "all-shared-tags-agree", True, "%d shared types, %d tags compared" % (len(shared_fqn), ntags), fn="initia-proto")
    R.floor("C20.R1", "tags compared with the reference", ntags, 1870)
    R.call_sites += ntags
    # ------------------------------------------------------------ R2
    base = json.load(open(os.path.join(VERIF, "baselines", "proto_schema.json")))
    nb = 0
    for fqn, e in base.items():
        m = local.get(fqn)
        if m is None:
            R.ob("C20.R2", fqn + ":present", False, "type of the pinned schema no longer exists in the bindings", fn=fqn)
            continue
        cur = {}
        for f in m["fields"]:
            for t in f["tags"]:
                cur[t] = [f["kind"], f["label"]] if m["kind"] != "enum" else [f["name"], ""]
        for t, (k, l) in e["tags"].items():
            nb += 1
            c = cur.get(t)
            if c is None:
                R.ob("C20.R2", "%s:tag%s" % (fqn, t), False, "tag %s (%s %s) of the pinned schema disappeared" % (t, l, k), loc="%s:%s" % (m["file"], m["line"]), fn=fqn)
            elif m["kind"] == "enum":
                if c[0] != k:
                    R.ob("C20.R2", "%s:value%s" % (fqn, t), False, "enumeration value %s is now named %s (pinned: %s)" % (t, c[0], k), loc="%s:%s" % (m["file"], m["line"]), fn=fqn)
            elif norm_kind(c[0]) != norm_kind(k) or wire_of(c[0]) != wire_of(k) or c[1] != l:
                R.ob("C20.R2", "%s:tag%s" % (fqn, t), False, "tag %s is now %s %s; the pinned definition is %s %s" % (t, c[1] or "single", c[0], l or "single", k), loc="%s:%s" % (m["file"], m["line"]), fn=fqn)
    # nested types: a message-typed field must still name a type with the pinned wire schema (the same FQN, or —
    # for a type shared between packages / re-exported with `pub use` — a structurally identical one, recursively)
    def tags_of(fq):
        m_ = local[fq]
        return {t: ([f["kind"], f["label"]] if m_["kind"] != "enum" else [f["name"], ""]) for f in m_["fields"] for t in f["tags"]}

    memo = {}

    def equiv(cur, bfq, depth=0):
        """does the current type `cur` (FQN or ext) have the pinned wire schema of `bfq`?"""
        if isinstance(cur, tuple) or isinstance(bfq, list):
            return (list(cur) if isinstance(cur, tuple) else cur) == bfq
        key = (cur, bfq)
        if key in memo:
            return memo[key]
        memo[key] = True  # coinductive: cycles are equal unless a difference is found
        e_ = base.get(bfq)
        if e_ is None or cur not in local:
            memo[key] = cur == bfq
            return memo[key]
        ok_ = local[cur]["kind"] == e_["kind"]
        ct = tags_of(cur)
        if ok_ and set(ct) != set(e_["tags"]):
            ok_ = False
        if ok_:
            for t_, (k_, l_) in e_["tags"].items():
                c_ = ct[t_]
                if local[cur]["kind"] == "enum":
                    ok_ = ok_ and c_[0] == k_
                elif norm_kind(c_[0]) != norm_kind(k_) or wire_of(c_[0]) != wire_of(k_) or c_[1] != l_:
                    ok_ = False
        if ok_ and depth < 12:
            cr = SC.refs(cur)
            for t_, br in (e_.get("refs") or {}).items():
                if t_ in cr and not equiv(cr[t_], br, depth + 1):
                    ok_ = False
        memo[key] = ok_
        return ok_

    nrefs = 0
    for fqn, e in base.items():
        if fqn not in local:
            continue
        cr = SC.refs(fqn)
        for t, br in (e.get("refs") or {}).items():
            nrefs += 1
            c_ = cr.get(t)
            if c_ is None:
                continue  # kind change: reported above
            same_name = (list(c_) if isinstance(c_, tuple) else c_) == br
            if not same_name and not equiv(c_, br):
                m = local[fqn]
                R.ob("C20.R2", "%s:tag%s:type" % (fqn, t), False, "tag %s now carries %s, whose wire schema differs from the pinned %s" % (t, c_ if not isinstance(c_, tuple) else c_[1], br if not isinstance(br, list) else br[1]), loc="%s:%s" % (m.get("use_file", m["file"]), m.get("use_line", m["line"])), fn=fqn)
    R.floor("C20.R2", "pinned message-typed fields checked", nrefs, 1000)
    R.ob("C20.R2", "pinned-schema-holds", True, "%d pinned types, %d pinned tags checked; %d new types" % (len(base), nb, len([k for k in local if k not in base])), fn="initia-proto")
    R.floor("C20.R2", "pinned tags checked", nb, 3000)
    # ------------------------------------------------------------ R3
    for fqn, m in local.items():
        if m["kind"] == "enum":
            continue
        seen = {}
        for f in m["fields"]:
            for t in f["tags"]:
                if t in seen:
                    R.ob("C20.R3", "%s:unique-tag%s" % (fqn, t), False, "tag %s used by both `%s` and `%s`" % (t, seen[t], f["name"]), loc="%s:%s" % (m["file"], f["line"]), fn=fqn)
                seen[t] = f["name"]
            k = f["kind"].split("=")[0]
            if k not in WIRE and k not in ("enumeration", "map", "btree_map", "hash_map", "oneof", "bytes"):
                R.ob("C20.R3", "%s:%s:kind" % (fqn, f["name"]), False, "unknown prost kind `%s`" % f["kind"], loc="%s:%s" % (m["file"], f["line"]), fn=fqn)
            if not f["tags"]:
                R.ob("C20.R3", "%s:%s:tag" % (fqn, f["name"]), False, "field without a tag", loc="%s:%s" % (m["file"], f["line"]), fn=fqn)
    nd = [x for x in d["nonderive_structs"] if not (x.split("::")[-1].endswith("Client") or x.split("::")[-1].endswith("Server") or "_client::" in x or "_server::" in x)]
    R.ob("C20.R3", "no-struct-without-derive", not nd, "structs under proto/ that do not derive prost::Message: %s" % nd[:5], fn="initia-proto")
    hand = [i for i in prog.impls if i["crate"] == "initia_proto" and (i.get("trait") or "").endswith("prost::Message") and not i["derive"]]
    R.ob("C20.R3", "no-hand-written-Message-impl", not hand, "hand-written impl prost::Message for %s" % [i["self_ty"] for i in hand][:5], loc=("%s:%s" % (hand[0]["span"]["file"], hand[0]["span"]["line"])) if hand else None, fn="initia-proto")
    nder = len([i for i in prog.impls if i["crate"] == "initia_proto" and (i.get("trait") or "").endswith("prost::Message") and i["derive"]])
    R.floor("C20.R3", "derived Message impls seen by the compiler", nder, 1300)
    included = set(os.path.basename(i["file"]) for i in d["includes"])
    gen = set(os.path.basename(m["file"]) for m in local.values())
    R.info("C20.R3", "generated files not included by lib.rs (not compiled, parsed only): %s" % sorted(gen - included))
    # ------------------------------------------------------------ R4
    inc = {}
    for i in d["includes"]:
        inc.setdefault(i["module"], []).append(i)
    by_rust = {m["rust_path"]: fqn for fqn, m in local.items()}
    # the registrations: parsed from type_urls.rs and, for impls produced by a macro_rules! table
    # (invisible to the syntax-tree view), taken from the compiler's impl table with evaluated constants
    urls = list(d["type_urls"])
    have = set(u["rust_path"].replace("crate::", "").replace("r#", "") for u in urls)
    for i in prog.impls:
        if i["crate"] == "initia_proto" and (i.get("trait") or "").endswith("TypeUrl"):
            v = i["assoc_consts"].get("TYPE_URL")
            rp_ = i["self_ty"].replace("crate::", "").replace("r#", "")
            if v and "str" in v and rp_ not in have:
                have.add(rp_)
                urls.append({"rust_path": i["self_ty"], "url": v["str"], "line": i["span"]["line"]})
    R.floor("C20.R4", "TypeUrl impls", len(urls), FLOORS["urls"])
    for u in urls:
        rp = u["rust_path"].replace("crate::", "").replace("r#", "")
        mod, name = rp.rsplit("::", 1)
        incs = inc.get(mod)
        loc = "packages/initia-proto/src/type_urls.rs:%s" % u["line"]
        if not incs or len(incs) != 1:
            R.ob("C20.R4", "url:" + rp, False, "module %s is not a generated-file module of lib.rs" % mod, loc=loc, fn=rp)
            continue
        pkg = os.path.basename(incs[0]["file"])[:-3]
        fqn = pkg + "." + name
        exists = fqn in local and local[fqn]["kind"] == "message"
        R.ob("C20.R4", "url:" + rp + ":type-exists", exists, "no message %s in %s" % (name, incs[0]["file"]), loc=loc, fn=rp)
        R.ob("C20.R4", "url:" + rp, u["url"] == "/" + fqn, "TYPE_URL is \"%s\" but the message's fully-qualified protobuf name is %s (package of %s): to_any() produces a URL no chain recognises and from_any() rejects the canonical one" % (u["url"], fqn, incs[0]["file"]), loc=loc, fn=rp)
        if fqn in ref:
            R.ob("C20.R4", "url:" + rp + ":reference", True, "reference crate registers /%s" % fqn, loc=loc, fn=rp)
    # compiled constants agree with the syntax-tree view (E1 impl table)
    comp = {}
    for i in prog.impls:
        if i["crate"] == "initia_proto" and (i.get("trait") or "").endswith("TypeUrl"):
            v = i["assoc_consts"].get("TYPE_URL")
            if v and "str" in v:
                comp[i["self_ty"]] = v["str"]
    R.ob("C20.R4", "compiled-TYPE_URLs-match-source", sorted(comp.values()) == sorted(u["url"] for u in urls), "the TYPE_URL constants seen by the compiler differ from those parsed from type_urls.rs", fn="initia-proto")
    mism = [(i["module"], i["file"]) for i in d["includes"] if i["module"].replace("::", ".").replace("r#", "") != os.path.basename(i["file"])[:-3]]
    R.info("C20.R4", "module path / package disagreements in lib.rs (no registered URL affected): %s" % mism)
    # ------------------------------------------------------------ R5
    fa = prog.body("initia_proto::traits::MessageExt::from_any")
    ta = prog.body("initia_proto::traits::MessageExt::to_any")
    R.ob("C20.R5", "from_any:exists", fa is not None and ta is not None, "from_any / to_any not found", fn="initia_proto::traits")
    if fa is not None:
        c = Ctx(fa)
        is_url = lambda t: t[0] == "item" and t[1].endswith("TYPE_URL")
        is_any_url = lambda t: t[0] == "field" and t[2] == "type_url" and t[1][0] == "param"

        def boolean(t):
            if t[0] == "call" and t[1] in EQ:
                a, b = t[2]
                if (is_url(a) and is_any_url(b)) or (is_url(b) and is_any_url(a)):
                    return EQ[t[1]]
            return None

        found = []
        ok, off = guarded(c, Guard("type-url", boolean=boolean), prog, 2, found)
        R.ob("C20.R5", "from_any:url-test-dominates-success", ok, "from_any can return Ok without `any.type_url == Self::TYPE_URL`: %s" % (off,), fn=fa.key, found=found)
        edges = pass_edges(c, Guard("type-url", boolean=boolean), prog, 2)
        reach = c.with_removed(edges).settle().T.reach
        dec = [bi for bi, t, args in call_sites(c, lambda nm: nm.endswith("Message::decode"))]
        R.ob("C20.R5", "from_any:decode-behind-test", bool(dec) and all(b not in reach for b in dec), "decode is reachable for a mismatched type URL", fn=fa.key)
        oks = [e for e in exits(c) if e["kind"] != "err"]

        def is_decode_of_value(e):
            # Ok(decode(any.value)?) or the tail call decode(any.value)
            if e["kind"] == "ok":
                v = e["term"][3][0][2]
                if v[0] != "payload":
                    return False
                call = shared.unwrap_payload(v)
            elif e["kind"] == "delegate":
                call = e["term"]
            else:
                return False
            return call[0] == "call" and call[1].endswith("Message::decode") and call[2][0][0] == "field" and call[2][0][2] == "value" and call[2][0][1][0] == "param"

        good = bool(oks) and all(is_decode_of_value(e) for e in oks)
        R.ob("C20.R5", "from_any:decodes-any.value", good, "from_any's Ok value is not decode(any.value)", fn=fa.key)
    if ta is not None:
        c = Ctx(ta)
        aggs = []
        for cc, path in inline_walk_(prog, c):
            from engine.analysis import aggregates
            for bi, si, t in aggregates(cc, lambda adt, var: adt.endswith("prost_types::Any")):
                aggs.append((cc, bi, t))
        good = len(aggs) == 1
        for cc, bi, t in aggs:
            tu, val = shared.agg_field(t, "type_url"), shared.agg_field(t, "value")
            good = good and tu is not None and tu[0] == "item" and tu[1].endswith("TYPE_URL") and val is not None
        rt = c.T.return_term()
        good = good and any(s[0] == "call" and s[1].endswith("MessageExt::to_bytes") for s in subterms(rt))
        R.ob("C20.R5", "to_any:shape", good, "to_any does not build Any{type_url: Self::TYPE_URL, value: to_bytes(self)}", fn=ta.key)


def inline_walk_(prog, c):
    from engine.analysis import inline_walk
    return inline_walk(prog, c, 2)
