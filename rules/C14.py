"""C14 Only well-formed configuration is ever accepted; updates are sectional."""
from .common import *
from . import shared
from .shared import agg_field, same, msg_field
from engine.analysis import storage_ops_deep, aggregates, must_pass, resolve_terms, Rem

CRATE = "staking"
SECTIONS = ["NativeChainConfig", "ProtocolChainConfig", "ProtocolFeeConfig"]
CONFIG_WRITERS = {"instantiate", "UpdateConfig", "AddValidator", "RemoveValidator", "CircuitBreaker", "ResumeContract", "migrate"}
# field -> (validator role, input field, prefix source) ; prefix source: 'self:<field>' | 'proto:<field>' | None
ROUTING = {
    "NativeChainConfig": {
        "account_address_prefix": ("prefix", "account_address_prefix", None),
        "validator_address_prefix": ("prefix", "validator_address_prefix", None),
        "token_denom": ("denom", "token_denom", None),
        "validators": ("addresses", "validators", "self:validator_address_prefix"),
        "unbonding_period": ("raw", "unbonding_period", None),
        "staker_address": ("address", "staker_address", "self:account_address_prefix"),
        "reward_collector_address": ("address", "reward_collector_address", "self:account_address_prefix"),
    },
    "ProtocolChainConfig": {
        "account_address_prefix": ("prefix", "account_address_prefix", None),
        "ibc_channel_id": ("channel", "ibc_channel_id", None),
        "ibc_token_denom": ("ibc_denom", "ibc_token_denom", None),
        "minimum_liquid_stake_amount": ("raw", "minimum_liquid_stake_amount", None),
        "oracle_address": ("opt-address", "oracle_address", "self:account_address_prefix"),
    },
    "ProtocolFeeConfig": {
        "dao_treasury_fee": ("raw", "dao_treasury_fee", None),
        "treasury_address": ("opt-address", "treasury_address", "proto:account_address_prefix"),
    },
}


# ---- validator roles, recognised by what the function does (P12), not by its name
def role_of(prog, key, _cache={}):
    ck = (id(prog), key)
    if ck in _cache:
        return _cache[ck]
    b = prog.body(key)
    r = None
    _cache[ck] = None  # recursion guard
    if b is not None and b.kind == "fn":
        own = list(b.calls())
        for k2 in prog.bodies:
            if k2.startswith(key + "::{closure"):
                own += list(prog.bodies[k2].calls())
        # private helpers that only this function calls are part of it (`scan_address_prefix(hrp)` inside validate_address_prefix)
        for _, t_ in list(own):
            rk_ = t_.get("rkey")
            hb_ = prog.body(rk_) if rk_ and rk_ != key else None
            if hb_ is not None and hb_.kind == "fn" and hb_.crate == b.crate:
                callers_ = set(cb_.key.split("::{closure")[0] for cb_ in prog.fn_bodies(b.crate) for _, ct_ in cb_.calls() if ct_.get("rkey") == rk_ and "::tests::" not in cb_.key)
                if callers_ == {key}:
                    own += list(hb_.calls())
                    for k2 in prog.bodies:
                        if k2.startswith(rk_ + "::{closure"):
                            own += list(prog.bodies[k2].calls())
        names = [call_name(t) or "" for _, t in own]
        lits = set()
        for k2 in [key] + [k for k in prog.bodies if k.startswith(key + "::{closure")]:
            for blk in prog.bodies[k2].blocks:
                for st in blk["stmts"]:
                    u = (st.get("rv") or {}).get("use")
                    if isinstance(u, dict) and "k" in u and "str" in u["k"]:
                        lits.add(u["k"]["str"])
                    if isinstance(u, dict) and "k" in u and "item" in u["k"]:
                        lits.add(const_str(("item", u["k"]["item"])))  # a named &str constant
                if blk["term"]["k"] == "call":
                    for a_ in blk["term"]["args"]:
                        if "k" in a_ and "str" in a_["k"]:
                            lits.add(a_["k"]["str"])
                        if "k" in a_ and "item" in a_["k"]:
                            lits.add(const_str(("item", a_["k"]["item"])))
        calls_addr = any(t.get("rkey") and t.get("rkey") != key and prog.body(t["rkey"]) is not None and role_of(prog, t["rkey"]) == "address" for _, t in own)
        if any(n.startswith("bech32::decode") for n in names) and b.nargs == 2:
            r = "address"
        elif calls_addr and b.nargs == 2 and "Vec<" in (b.j.get("ret_ty") or ""):
            r = "addresses"
        elif any(n.endswith("is_ascii_alphabetic") for n in names):
            r = "denom"
        elif "ibc/" in lits and b.nargs == 1:
            r = "ibc_denom"
        elif any(n.endswith("is_ascii_lowercase") for n in names) and any(n.endswith("is_ascii_uppercase") for n in names):
            r = "prefix"
    _cache[ck] = r
    return r


def role_closure(prog, key):
    b = prog.body(key)
    return b is not None and any((call_name(t) or "").endswith("is_ascii_alphabetic") for _, t in b.calls())


def validated(prog, t, role):
    """t = Ok payload of a call to a validator of `role`: returns the call's args, else None"""
    if t[0] != "payload":
        return None
    c = shared.unwrap_payload(t)
    if c[0] != "call":
        return None
    cb = shared._body_of_call(prog, c)
    if cb is None or role_of(prog, cb.key) != role:
        return None
    return c[2]


def run(R, env):
    prog = env.prog("default")
    R.rule("C14.R1", "routing: NativeChainConfig / ProtocolChainConfig / ProtocolFeeConfig values are constructed only by the three `validate` functions and the 1.0.0 migration; in each validate every field comes from the validator of its role applied to the same-named input field with the section's own prefix field")
    R.rule("C14.R2", "validator shapes (loop-free ones): address => Ok only if bech32 decode succeeded and the decoded prefix equals the prefix argument, returning the input string; denom => reject iff len <= 3, and all chars alphabetic; ibc denom => starts_with(\"ibc/\") and 64 characters after it; channel => starts_with(\"channel-\") and the rest parses as an integer; duplicates in a list are an error before the address is accepted")
    R.rule("C14.R3", "sinks: CONFIG is written only from the reviewed sites; in instantiate and UpdateConfig every section stored is the Ok value of the matching validate")
    R.rule("C14.R4", "sectional updates: for each of the 32 combinations of supplied sections, exactly the supplied sections are written; liquid_stake_token_denom and stopped never change in UpdateConfig")
    R.rule("C14.R5", "AddValidator / RemoveValidator: admin only; the input goes through the address validator with native_chain_config.validator_address_prefix; add rejects when any(== new) else pushes it; remove takes position(== x) and removes that index, else error; only native_chain_config.validators changes")
    R.assume("character-level correctness of accepted strings (checksum, case, charset) is bech32::decode's and simple predicates on runtime strings: not decided; validate_address_prefix's byte loop is not decided")
    sites = shared.site_contexts(prog, CRATE, env)
    # ------------------------------------------------------------ R1 constructors
    ctors = {}
    for b in prog.fn_bodies(CRATE):
        for bi, si, t in aggregates(Ctx(b), lambda adt, var: adt.split("::")[-1] in SECTIONS and adt.startswith("staking::state::")):
            ctors.setdefault(t[1].split("::")[-1], []).append((b, bi, si, t))
    vfn = {}
    for sec in SECTIONS:
        cs = ctors.get(sec, [])
        mig = [b.key for b, *_ in cs if "::migrations::" in b.key]
        val = [(b, bi, si, t) for b, bi, si, t in cs if "::migrations::" not in b.key]
        R.ob("C14.R1", sec + ":constructors", len(val) == 1 and len(mig) <= 1, "%s is constructed in %s" % (sec, sorted(set(b.key for b, *_ in cs))), fn="staking::state::" + sec)
        if len(val) != 1:
            continue
        b, bi, si, t = val[0]
        vfn[sec] = b.key
        # the constructing function returns Result and its aggregate is the Ok value
        self_t = lambda x: x[0] == "param" and x[1] == 1
        proto_t = lambda x: x[0] == "param" and x[1] == 2
        for fld, (role, inp, pfx) in ROUTING[sec].items():
            v = agg_field(t, fld)
            good = False
            why = fmt(v or ("none",))[:160]
            src = lambda x, inp=inp: x[0] == "field" and x[2] == inp and self_t(x[1])

            def pfx_ok(p):
                if pfx is None:
                    return True
                who, f = pfx.split(":")
                return p[0] == "field" and p[2] == f and (self_t(p[1]) if who == "self" else proto_t(p[1]))

            if v is None:
                pass
            elif role == "raw":
                good = src(v)
            elif role in ("prefix", "denom", "ibc_denom"):
                a = validated(prog, v, role)
                good = a is not None and len(a) == 1 and src(a[0])
            elif role in ("address", "addresses"):
                a = validated(prog, v, role)
                good = a is not None and len(a) == 2 and src(a[0]) and pfx_ok(a[1])
            elif role == "opt-address":
                # transpose(map(self.x, |a| validate_address(a, prefix)))?
                c = shared.unwrap_payload(v) if v[0] == "payload" else ("none",)
                if c[0] == "call" and c[1].endswith("transpose") and c[2][0][0] == "call" and c[2][0][1] == "std::option::Option::map" and src(c[2][0][2][0]):
                    res = closure_result(prog, c[2][0][2][1], params={2: ("elem",)})
                    if res is not None and res[0] == "call":
                        cb = shared._body_of_call(prog, res)
                        good = cb is not None and role_of(prog, cb.key) == "address" and res[2][0] == ("elem",) and pfx_ok(res[2][1])
                if not good:
                    # a helper / match spelling: the value is None when the input is None, else
                    # Some(validated address of the unwrapped input with the prefix)
                    from engine.analysis import forms
                    for vf in forms(prog, v, 2):
                        alts_ = vf[1] if vf[0] == "phi" else (vf,)
                        somes = [a_ for a_ in alts_ if a_[0] == "agg" and a_[2] == "Some"]
                        nones = [a_ for a_ in alts_ if a_[0] == "agg" and a_[2] == "None"]
                        if somes and len(somes) + len(nones) == len(alts_):
                            okall = True
                            for sm in somes:
                                a2 = validated(prog, sm[3][0][2], "address")
                                if not (a2 is not None and a2[0][0] == "payload" and src(a2[0][1]) and pfx_ok(a2[1])):
                                    okall = False
                            if okall:
                                good = True
                                break
            elif role == "channel":
                good = src(v)
                if good:
                    channel_checks(R, prog, b, "C14.R2")
                else:
                    # a dedicated validator: v = helper(self.ibc_channel_id)? where the helper returns its input
                    # on every success path and performs the channel checks on it
                    hc = shared.unwrap_payload(v) if v[0] == "payload" else ("none",)
                    hb = shared._body_of_call(prog, hc) if hc[0] == "call" else None
                    if hb is not None and len(hc[2]) == 1 and src(hc[2][0]):
                        ret_in = shared.returns_its_input(hb)
                        good = ret_in and channel_checks(R, prog, hb, "C14.R2", src=lambda x: x[0] == "param" and x[1] == 1)
            R.ob("C14.R1", "%s.%s" % (sec, fld), good, "%s.%s <- %s; expected %s(self.%s%s)" % (sec, fld, why, role, inp, (", " + pfx) if pfx else ""), loc=b.loc(bi, si), fn=b.key)
        extra = set(n for _, n, _ in t[3]) - set(ROUTING[sec])
        R.ob("C14.R1", sec + ":all-fields-reviewed", not extra, "fields without a routing rule: %s" % sorted(extra), fn=b.key)
    # ------------------------------------------------------------ R2 shapes
    addr_fns = [k for k in prog.bodies if prog.bodies[k].crate == CRATE and role_of(prog, k) == "address"]
    R.floor("C14.R2", "address validators", len(addr_fns), 1)
    for k in addr_fns:
        shared.address_validator_shape(R, prog, k, "C14.R2")
    from engine.analysis import success_exits, inline_walk
    p1 = lambda t: t[0] == "param" and t[1] == 1
    for k in [k for k in prog.bodies if prog.bodies[k].crate == CRATE and role_of(prog, k) == "denom"]:
        c = Ctx(prog.body(k))
        # accepted lengths: exactly those > 3, whatever the spelling (`<= 3`, `< 4`, a range test ..)
        out = len_outcomes(prog, c, p1, extra=(3, 4))
        bad = sorted(v for v, okv in out.items() if okv != (v > 3))
        R.worlds += len(out)
        R.ob("C14.R2", "denom:length>3", bool(out) and not bad, "a denom is accepted / rejected contrary to `len > 3` for the lengths %s (per length, success reachable: %s)" % (bad, {v: out[v] for v in bad}), fn=k)
        w, quant = charclass_world(prog, c, p1, "is_ascii_alphabetic", False)
        n = sum(1 for _, atom in c.atoms() for s_ in subterms(atom[1]) if quant(s_) is not None)
        w = w.settle()
        R.ob("C14.R2", "denom:alphabetic", n >= 1 and not success_exits(w), "a denom with non-alphabetic characters is accepted", fn=k)
    for k in [k for k in prog.bodies if prog.bodies[k].crate == CRATE and role_of(prog, k) == "ibc_denom"]:
        c = Ctx(prog.body(k))
        n = prefix_tests(prog, c, p1, "ibc/")
        w = prefix_world(c, p1, "ibc/", False).settle()
        R.ob("C14.R2", "ibc-denom:prefix", n >= 1 and not success_exits(w), "an ibc denom without the ibc/ prefix is accepted", fn=k)
        # with the prefix present: accepted exactly when 64 characters follow it
        cw = prefix_world(c, p1, "ibc/", True)
        out = len_outcomes(prog, cw, rest_after(p1, "ibc/"), extra=(64,))
        bad = sorted(v for v, okv in out.items() if okv != (v == 64))
        R.worlds += len(out)
        R.ob("C14.R2", "ibc-denom:64-characters", bool(out) and not bad, "an ibc denom is accepted / rejected contrary to `64 characters after ibc/` for the lengths %s" % bad, fn=k)
    for k in [k for k in prog.bodies if prog.bodies[k].crate == CRATE and role_of(prog, k) == "addresses"]:
        c = Ctx(prog.body(k))
        # the context in which one element is validated: the function body (loop) or the closure given to map()
        elem_ctxs = []
        for c_, path_ in inline_walk(prog, c, 1):
            if c_.body.kind == "closure" or not path_:
                vcs = [(bi_, t_, a_) for bi_, t_, a_ in call_sites(c_, lambda nm: True) if prog.body(t_.get("rkey") or "") is not None and role_of(prog, t_.get("rkey")) == "address"]
                if vcs:
                    elem_ctxs.append((c_, vcs))
        R.ob("C14.R2", "addresses:element-validation-site", len(elem_ctxs) == 1 and len(elem_ctxs[0][1]) == 1, "found %d contexts validating list elements" % len(elem_ctxs), fn=k)
        for ec, vcs in elem_ctxs[:1]:
            # world: the element was seen before — `seen.contains(x)` is true, `seen.insert(x)` answers false
            # (or, without a set: `earlier.iter().any(|o| o == x)` / `contains(x)` is true)
            memb = lambda t: membership(prog, t, lambda c_: True, lambda e_: True)
            dupw = ec.assume((lambda t: t[0] == "call" and t[1] == "std::collections::HashSet::contains", True), (lambda t: t[0] == "call" and t[1] == "std::collections::HashSet::insert", False), (None, lambda t: memb(t))).settle()
            from engine.analysis import inline_walk as _iw3
            is_dup_test = lambda s_: (s_[0] == "call" and s_[1] in ("std::collections::HashSet::contains", "std::collections::HashSet::insert")) or memb(s_) is not None
            n = sum(1 for c3, p3 in _iw3(prog, ec, 1) for _, atom in c3.atoms() for s_ in subterms(atom[1]) if is_dup_test(s_))
            # (the test may be the value of the tail expression: `seen.insert(a).then_some(addr).ok_or_else(..)`)
            n += sum(1 for c3, p3 in _iw3(prog, ec, 1) for e3 in exits(c3) if e3.get("term") is not None for s_ in subterms(e3["term"]) if is_dup_test(s_))
            pushes = [bi_ for bi_, t_, a_ in call_sites(dupw, lambda nm: nm == "std::vec::Vec::push")]
            accepted = bool(pushes) or (ec.body.kind == "closure" and bool(success_exits(dupw)))
            R.ob("C14.R2", "addresses:duplicate-test-precedes-acceptance", n >= 1 and not accepted, "a duplicate address can be accepted into the validated list", fn=k)
            a_ = vcs[0][2]
            el_ = a_[0] if a_ else ("none",)
            if el_[0] == "field" and el_[2] in ("0", "1") and el_[1][0] == "payload":
                el_ = el_[1]  # element of an enumerate() / zip() pair
            good = len(a_) == 2 and a_[1][0] == "param" and a_[1][1] == 2 and el_[0] == "payload" and shared.unwrap_payload(el_)[0] == "call" and shared.unwrap_payload(el_)[1].endswith("Iterator::next")
            R.ob("C14.R2", "addresses:each-element-validated-with-the-prefix", good, "list elements are not validated one by one with the prefix argument: validate(%s)" % ", ".join(fmt(x)[:60] for x in a_), fn=k)
    # ------------------------------------------------------------ R3 sinks
    who = {}
    for site, c in sites.items():
        for o in storage_ops_deep(prog, c, env.depth):
            if o["kind"] == "w" and ns_of(prog, o["args"][0]) == "config" and "migrations::states" not in (storage_item_of(o["args"][0]) or ""):
                who.setdefault(site, o)
    for site, o in who.items():
        R.ob("C14.R3", "config-writer:" + site, site in CONFIG_WRITERS, "CONFIG is written from %s; reviewed writers %s" % (site, sorted(CONFIG_WRITERS)), loc=o["loc"], fn=o["fn"])
    R.floor("C14.R3", "sites writing CONFIG", len(who), 7)

    def from_validate(t, sec):
        if t[0] != "payload":
            return False
        c = shared.unwrap_payload(t)
        cb = shared._body_of_call(prog, c) if c[0] == "call" else None
        return cb is not None and cb.key == vfn.get(sec)

    SECF = {"native_chain_config": "NativeChainConfig", "protocol_chain_config": "ProtocolChainConfig", "protocol_fee_config": "ProtocolFeeConfig"}
    ic = sites.get("instantiate")
    if ic is not None:
        for o in storage_ops_deep(prog, ic, env.depth):
            if o["kind"] == "w" and ns_of(prog, o["args"][0]) == "config":
                v = shared.written_agg(prog, o)
                for f, sec in SECF.items():
                    x = agg_field(v, f) if v[0] == "agg" else None
                    R.ob("C14.R3", "instantiate:%s-is-validated" % f, x is not None and from_validate(x, sec), "%s stored at instantiation = %s; expected the Ok value of %s::validate" % (f, fmt(x or ("none",))[:120], sec), loc=o["loc"], fn=ic.body.key)
                mon = agg_field(v, "monitors") if v[0] == "agg" else None
                a = validated(prog, mon, "addresses") if mon is not None else None
                okm = a is not None and a[0][0] == "field" and a[0][2] == "monitors" and a[1][0] == "field" and a[1][2] == "account_address_prefix" and a[1][1][0] == "field" and a[1][1][2] == "protocol_chain_config"
                R.ob("C14.R3", "instantiate:monitors-validated", okm, "monitors stored = %s; expected validate_addresses(msg.monitors, protocol prefix)" % fmt(mon or ("none",))[:140], loc=o["loc"], fn=ic.body.key)
                den = agg_field(v, "liquid_stake_token_denom") if v[0] == "agg" else None
                from engine.analysis import forms as _forms14
                # (also `validate_denom(x).map(|s| format!("factory/{c}/{s}"))?`: the closure applied to the validated value)
                okd = den is not None and any(validated(prog, s_, "denom") is not None for f_ in [den] + list(_forms14(prog, den, 2)) for s_ in subterms(f_))
                R.ob("C14.R3", "instantiate:subdenom-validated", okd, "the LST sub-denom is used without validate_denom", loc=o["loc"], fn=ic.body.key)
    # ------------------------------------------------------------ R4 sectional UpdateConfig
    uc = sites.get("UpdateConfig")
    if uc is None:
        R.ob("C14.R4", "UpdateConfig:site", False, "no handler", fn="staking::contract::execute")
    else:
        hk = uc.body.key
        opts = ["native_chain_config", "protocol_chain_config", "protocol_fee_config", "monitors", "batch_period"]
        preds = {o: (lambda t, o=o: msg_field(t, "UpdateConfig", o)) for o in opts}
        nworld = 0
        for mask in range(32):
            rem = Rem()
            okn = True
            for i, o in enumerate(opts):
                r, n = world_edges(uc, preds[o], bool(mask >> i & 1))
                rem |= r
                okn = okn and n >= 1
            w = uc.with_removed(rem).settle()
            nworld += 1
            want = set((o,) for i, o in enumerate(opts) if mask >> i & 1)
            ws = shared.state_writes(prog, w, env, ns="config")
            good = len(ws) == 1
            got = None
            for op, alts in ws:
                for base, d in alts or []:
                    got = set(d)
                    if not shared.is_stored_base(prog, base, "config", CRATE) or set(d) != want:
                        good = False
                    for p, v in d.items():
                        f = p[0]
                        if f in SECF and not from_validate(v, SECF[f]):
                            good = False
                        if f == "monitors":
                            a = validated(prog, v, "addresses")
                            pfx_ok = a is not None and (loaded_field(prog, a[1], "config", ["protocol_chain_config", "account_address_prefix"], CRATE) or (a[1][0] == "field" and a[1][2] == "account_address_prefix" and from_validate(a[1][1], "ProtocolChainConfig")))
                            if not (a is not None and a[0][0] == "payload" and preds["monitors"](a[0][1]) and pfx_ok):
                                good = False
                        if f == "batch_period" and not (v[0] == "payload" and preds["batch_period"](v[1])):
                            good = False
            R.ob("C14.R4", "UpdateConfig:world:" + "".join("1" if mask >> i & 1 else "0" for i in range(5)), good, "supplied sections %s but fields written %s" % (sorted(".".join(x) for x in want), sorted(".".join(x) for x in got) if got is not None else None), fn=hk)
        R.worlds += nworld
        # fee config validated against the protocol section in force: the one supplied with the same
        # message when there is one, else the stored one — decided in the two worlds of the protocol section
        for psome in (True, False):
            rem = Rem()
            r_, _ = world_edges(uc, preds["protocol_fee_config"], True)
            rem |= r_
            r_, _ = world_edges(uc, preds["protocol_chain_config"], psome)
            rem |= r_
            w = uc.with_removed(rem).settle()
            R.worlds += 1
            for op, alts in shared.state_writes(prog, w, env, ns="config"):
                good = False
                for base, d in alts or []:
                    v = d.get(("protocol_fee_config",))
                    if v is None or v[0] != "payload":
                        continue
                    c = shared.unwrap_payload(v)
                    arg = c[2][1] if c[0] == "call" and len(c[2]) == 2 else ("none",)
                    alts_ = arg[1] if arg[0] == "phi" else (arg,)
                    if psome:
                        good = all(from_validate(a_, "ProtocolChainConfig") for a_ in alts_)
                    else:
                        good = all(loaded_field(prog, a_, "config", ["protocol_chain_config"], CRATE) for a_ in alts_)
                R.ob("C14.R4", "UpdateConfig:fee-config-validated-against-protocol-section:%s" % ("supplied" if psome else "stored"), good, "with the protocol section %s, the fee section's treasury address is not validated against the protocol section in force" % ("supplied in the same message" if psome else "absent"), loc=op["loc"], fn=hk)
    # ------------------------------------------------------------ R5 validators add / remove
    dctx, table = handlers(prog, CRATE)
    for v, kind in (("AddValidator", "add"), ("RemoveValidator", "remove")):
        if v not in sites:
            R.ob("C14.R5", v + ":site", False, "no handler", fn="staking::contract::execute")
            continue
        h = sites[v]
        hk = h.body.key
        found = []
        ok, off = arm_guarded(prog, dctx, table[v], admin_guard(prog, CRATE), env.depth, found)
        R.ob("C14.R5", v + ":admin", ok, "%s succeeds without assert_admin" % v, fn=hk, found=found)
        inp = lambda t: t[0] == "field" and t[1][0] == "variant" and t[1][2] == v
        vpfx = lambda t: loaded_field(prog, t, "config", ["native_chain_config", "validator_address_prefix"], CRATE)
        vals = lambda t: loaded_field(prog, t, "config", ["native_chain_config", "validators"], CRATE)

        def addr(t):
            a = validated(prog, t, "address")
            return a is not None and inp(a[0]) and vpfx(a[1])

        G = Guard("validated", subject=lambda s: s[0] == "call" and shared._body_of_call(prog, s) is not None and role_of(prog, shared._body_of_call(prog, s).key) == "address" and inp(s[2][0]) and vpfx(s[2][1]))
        found = []
        ok, off = guarded(h, G, prog, env.depth, found)
        R.ob("C14.R5", v + ":input-validated-with-validator-prefix", ok, "%s can succeed without validate_address(input, native_chain_config.validator_address_prefix): %s" % (v, off), fn=hk, found=found)

        def eq_closure(clo):
            res = closure_result(prog, clo, params={2: ("elem",)})
            if res is None or res[0] != "call" or res[1] != "std::cmp::PartialEq::eq":
                return False
            a, b = res[2]
            return (a == ("elem",) and addr(b)) or (b == ("elem",) and addr(a))

        ws = shared.state_writes(prog, h, env, ns="config")
        R.ob("C14.R5", v + ":one-config-write", len(ws) == 1, "CONFIG writes: %d" % len(ws), fn=hk)
        for op, alts in ws:
            good = bool(alts)
            for base, d in alts or []:
                if not shared.is_stored_base(prog, base, "config", CRATE) or set(d) != {("native_chain_config", "validators")}:
                    good = False
                    continue
                val = d[("native_chain_config", "validators")]
                if kind == "add":
                    if not (val[0] == "mut" and val[2] == "std::vec::Vec::push" and vals(val[1]) and addr(val[3][0])):
                        good = False
                else:
                    if not (val[0] == "mut" and val[2] == "std::vec::Vec::remove" and vals(val[1]) and val[3][0][0] == "payload" and shared.unwrap_payload(val[3][0])[0] == "call" and shared.unwrap_payload(val[3][0])[1].endswith("Iterator::position") and vals(shared.unwrap_payload(val[3][0])[2][0]) and eq_closure(shared.unwrap_payload(val[3][0])[2][1])):
                        good = False
            if not good and alts and all(shared.is_stored_base(prog, b_, "config", CRATE) and not d_ for b_, d_ in alts):
                fnb = prog.body(op["fn"])
                higher = fnb is not None and any((call_name(t_) or "").split("::")[-1] in ("call", "call_once", "call_mut") and "ops::Fn" in (call_name(t_) or "") for _, t_ in fnb.calls())
                if higher:
                    # the loaded config is edited in place by a closure the caller hands in (`edit(&mut cfg.validators, &addr)?`)
                    # and saved: mutation through a called closure parameter is not modelled, the stored value is not decided
                    R.set_undecided(["C14.R5"], "the validator list is edited by a closure passed to a shared helper; mutation through a called closure parameter is not modelled")
            R.ob("C14.R5", v + ":delta", good, "%s stores %s; expected loaded config with only native_chain_config.validators %s" % (v, fmt(op["args"][2])[:200], "pushed with the validated address" if kind == "add" else "with the found index removed"), loc=op["loc"], fn=hk)
        if kind == "add":
            def dupg(t):
                m = membership(prog, t, vals, addr)
                return None if m is None else (not m)
            found = []
            ok, off = guarded(h, Guard("not-present", boolean=dupg), prog, env.depth, found)
            R.ob("C14.R5", "AddValidator:duplicate-rejected", ok, "a validator already in the list can be added again: %s" % (off,), fn=hk, found=found)
        else:
            pos = lambda t: t[0] == "call" and t[1].endswith("Iterator::position") and vals(t[2][0]) and eq_closure(t[2][1])
            rem, n = world_edges(h, pos, False)
            w = h.with_removed(rem).settle()
            from engine.analysis import success_exits as _se14
            R.ob("C14.R5", "RemoveValidator:unknown-rejected", (n >= 1 or bool(_se14(h))) and not _se14(w), "removing an address that is not in the list succeeds", fn=hk)
        R.clear_undecided(["C14.R5"])


def channel_checks(R, prog, b, rule, src=None):
    """the function constructing ProtocolChainConfig accepts its ibc_channel_id only if it starts
    with "channel-" and the WHOLE remainder parses as u64 — tested in the function itself or in a
    boolean helper it calls; decided in the worlds `no such prefix` and `remainder does not parse`."""
    from engine.analysis import success_exits, inline_walk
    c = Ctx(b)
    src = src or (lambda x: x[0] == "field" and x[2] == "ibc_channel_id" and x[1][0] == "param" and x[1][1] == 1)
    LIT = "channel-"
    n_pfx = prefix_tests(prog, c, src, LIT)
    w = prefix_world(c, src, LIT, False).settle()
    ok_sw = n_pfx >= 1 and not success_exits(w)
    rest = rest_after(src, LIT)
    is_parse = lambda y: y[0] == "call" and y[1] == "core::str::parse" and y[2] and rest(y[2][0]) and "u64" in (y[3][1] if len(y) > 3 and y[3] else "")
    pa = lambda x: x[0] == "call" and x[1] == "std::result::Result::is_ok" and x[2] and is_parse(x[2][0])
    n_pa = 0
    for c_, path_ in inline_walk(prog, c, 3):
        for _, atom in c_.atoms():
            n_pa += sum(1 for s_ in subterms(atom[1]) if is_parse(s_))
        n_pa += sum(1 for s_ in subterms(c_.T.return_term()) if is_parse(s_)) if path_ else 0
    if not n_pa:
        # `s.strip_prefix("channel-").map(str::parse::<u64>)`: the parse as a function item mapped over the remainder
        from engine.analysis import ok_payload as _okp14
        for c_, path_ in inline_walk(prog, c, 3):
            for _, atom in c_.atoms():
                for s_ in subterms(atom[1]):
                    if s_[0] == "call" and s_[1] in ("std::option::Option::map", "std::option::Option::and_then") and len(s_[2]) == 2 and s_[2][1][0] == "fn" and is_parse(_okp14(("call", "std::option::Option::map", s_[2]))):
                        n_pa += 1
    # the prefix is there, the remainder is not a number: is_ok() false, a match on the parse result takes Err
    w = prefix_world(c, src, LIT, True).assume((pa, False), (is_parse, ("ok", False))).settle()
    ok_pa = not success_exits(w)
    R.worlds += 2
    tests = (["prefix"] if n_pfx else []) + (["parse-u64"] if n_pa else [])
    R.ob(rule, "channel:starts-with-channel-", ok_sw, "a channel id that does not start with \"channel-\" is accepted (tests: %s)" % tests, fn=b.key)
    R.ob(rule, "channel:numeric-suffix", ok_pa and n_pa >= 1, "a channel id whose suffix is not a u64 is accepted (tests: %s)" % tests, fn=b.key)
    return ok_sw and ok_pa and n_pa >= 1
