"""C04 Exchange-rate fairness: the shape of the two formulas and the three guards."""
from .common import *
from . import shared
from .shared import same
from engine.analysis import resolve_terms, bool_world_edges, storage_ops_deep

CRATE = "staking"
IBC = ["protocol_chain_config", "ibc_token_denom"]


def mr(t, recv, num, den):
    return t[0] == "call" and t[1] == "cosmwasm_std::Uint128::multiply_ratio" and len(t[2]) == 3 and recv(t[2][0]) and num(t[2][1]) and den(t[2][2])


def alts_of(t):
    return list(t[1]) if t[0] == "phi" else [t]


def run(R, env):
    prog = env.prog("default")
    R.rule("C04.R1", "mint amount: with the call inlined, M == paid when the current staked total is zero, else Uint128::multiply_ratio(total LST, paid, current staked total) (floor by the library's contract; callee identity excludes ceil / Decimal detours, role check excludes swapped operands)")
    R.rule("C04.R2", "unbond amount: U == 0 when the batch total is zero, else multiply_ratio(staked total, batch LST, total LST), all read from the loaded state / pending batch")
    R.rule("C04.R3", "LiquidStake guards, each cutting every success exit: M.is_zero() => error; reject iff M < expected_mint_amount when supplied; reject iff paid < minimum_liquid_stake_amount")
    R.assume("given this shape, no-dilution and no-round-trip-profit are arithmetic facts about floor(); they are not machine-checked here (runtime magnitudes)")
    sites = shared.site_contexts(prog, CRATE, env)
    if "LiquidStake" not in sites or "SubmitBatch" not in sites:
        R.ob("C04.R1", "handlers", False, "LiquidStake/SubmitBatch not dispatched", fn="staking::contract::execute")
        return
    h = sites["LiquidStake"]
    hk = h.body.key
    paid = lambda t: shared.is_paid(prog, t, IBC)
    tnt = lambda t: loaded_field(prog, t, "state", ["total_native_token"], CRATE)
    lst = lambda t: loaded_field(prog, t, "state", ["total_liquid_stake_token"], CRATE)
    zero = lambda t: t[0] == "call" and t[1] == "cosmwasm_std::Uint128::zero"
    # M = operand of total_liquid_stake_token +=
    M = None
    cur_native = None
    for op, alts in shared.state_writes(prog, h, env):
        for base, d in alts or []:
            v = d.get(("total_liquid_stake_token",))
            if v is not None and delta_op(v)[0] == "+=":
                M = delta_op(v)[1]
            n = d.get(("total_native_token",))
            if n is not None and n[0] == "mut":
                cur_native = n[1]
    R.ob("C04.R1", "LiquidStake:M-identified", M is not None and cur_native is not None, "no `total_liquid_stake_token += M` / `total_native_token += ..` found", fn=hk)
    if M is None or cur_native is None:
        return
    Mr = resolve_terms(prog, M, env.depth)
    R.info("C04.R1", "M (inlined) = " + fmt(Mr)[:400])
    # the current staked total as seen by the mint computation: loaded value or 0 after the sweep
    # (the value AFTER the ownerless-stake sweep: the loaded total, or zero where the sweep ran)
    cur = lambda t: all(tnt(a) or zero(a) for a in alts_of(t)) and any(tnt(a) for a in alts_of(t)) and any(zero(a) for a in alts_of(t))
    good = True
    why = ""
    alts = alts_of(Mr)
    has_ratio = has_id = False
    for a in alts:
        if paid(a):
            has_id = True
        elif mr(a, lst, paid, cur):
            has_ratio = True
        else:
            good = False
            why = fmt(a)[:200]
    R.ob("C04.R1", "LiquidStake:mint-formula", good and has_ratio and has_id, "mint amount alternatives are not {paid, total_lst.multiply_ratio(paid, total_native)}: %s" % (why or [fmt(a)[:120] for a in alts]), fn=hk)
    # which alternative in which world: evaluate the callee per world of `total_native.is_zero()`
    calls = [s_ for s_ in subterms(M) if s_[0] == "call" and shared._body_of_call(prog, s_) is not None]
    if calls:
        cb = shared._body_of_call(prog, calls[0])
        isz = lambda t: t[0] == "call" and t[1] == "cosmwasm_std::Uint128::is_zero" and cur(t[2][0])
        for val, name, pred in ((True, "native=0", lambda x: paid(x)), (False, "native>0", lambda x: mr(x, lst, paid, cur))):
            # M evaluated in the world where every `total_native.is_zero()` has this value (the
            # test may sit in the rate helper or in a wrapper around it)
            # (is_zero() tests and `match x.u128() { 0 => .. }` alike: the total is 0, resp. a non-zero value)
            Mw = resolve_terms(prog, M, env.depth, None, ((isz, val), (cur, ("int", 0 if val else 1))))
            R.worlds += 1
            R.ob("C04.R1", "mint:" + name, all(pred(a) for a in alts_of(Mw)), "in the world %s the mint computation returns %s" % (name, fmt(Mw)[:200]), fn=cb.key)
    # ---------------- R2
    hs = sites["SubmitBatch"]
    sk = hs.body.key
    pend_total = lambda t: t[0] == "field" and t[2] == "batch_total_liquid_stake" and shared.loaded_batch(prog, t[1], lambda k: is_load(prog, k, "pending_batch_id", CRATE))
    U = None
    for op in storage_ops_deep(prog, hs, env.depth):
        if op["kind"] == "w" and ns_of(prog, op["args"][0]) == "batches":
            for s_ in subterms(op["args"][-1]):
                if s_[0] == "upd" and s_[2] == ("expected_native_unstaked",) and s_[3][0] == "agg" and s_[3][2] == "Some":
                    U = s_[3][3][0][2]
            if U is None:
                for b_, d_ in shared.write_value_alternatives(prog, op, "batches") or []:
                    x_ = d_.get(("expected_native_unstaked",))
                    if x_ is not None and x_[0] == "agg" and x_[2] == "Some":
                        U = x_[3][0][2]
    R.ob("C04.R2", "SubmitBatch:U-identified", U is not None, "no `expected_native_unstaked := Some(U)` found", fn=sk)
    if U is not None:
        Ur = resolve_terms(prog, U, env.depth)
        alts = alts_of(Ur)
        # (the zero alternative may be spelled as the batch total itself, returned where it is zero: the worlds below pin that)
        good = len(alts) == 2 and any(zero(a) or pend_total(a) for a in alts) and any(mr(a, tnt, pend_total, lst) for a in alts)
        R.ob("C04.R2", "SubmitBatch:unbond-formula", good, "unbond amount alternatives are not {0, total_native.multiply_ratio(batch_total, total_lst)}: %s" % [fmt(a)[:160] for a in alts], fn=sk)
        calls = [s_ for s_ in subterms(U) if s_[0] == "call" and shared._body_of_call(prog, s_) is not None]
        if calls:
            cb = shared._body_of_call(prog, calls[0])
            isz = lambda t: t[0] == "call" and t[1] == "cosmwasm_std::Uint128::is_zero" and pend_total(t[2][0])
            for val, name, pred in ((True, "batch=0", lambda x: zero(x) or pend_total(x)), (False, "batch>0", lambda x: mr(x, tnt, pend_total, lst))):
                Uw = resolve_terms(prog, U, env.depth, None, ((isz, val), (pend_total, ("int", 0 if val else 1))))
                R.worlds += 1
                R.ob("C04.R2", "unbond:" + name, all(pred(a_) for a_ in alts_of(Uw)), "in the world %s the unbond computation returns %s" % (name, fmt(Uw)[:200]), fn=cb.key)
    # ---------------- R3
    isM = lambda t: shared.same_any(prog, t, M)
    G1 = Guard("mint>0", boolean=lambda t: (False if (t[0] == "call" and t[1] == "cosmwasm_std::Uint128::is_zero" and isM(t[2][0])) else None))
    found = []
    ok, off = guarded(h, G1, prog, env.depth, found)
    R.ob("C04.R3", "LiquidStake:zero-mint-rejected", ok, "a success exit is reachable with a zero mint amount: %s" % (off,), fn=hk, found=found)
    exp = lambda t: shared.msg_field(t, "LiquidStake", "expected_mint_amount")
    rem, n = world_edges(h, exp, True)
    w = h.with_removed(rem).settle()
    R.worlds += 1
    expv = lambda t: t[0] == "payload" and exp(t[1])
    DG = deadline_guard("slippage", isM, expv, {"<"})
    found = []
    ok, off = guarded(w, DG, prog, env.depth, found)
    R.ob("C04.R3", "LiquidStake:slippage-guard", (n >= 1 or bool(found) or bool(DG.seen)) and ok, "with expected_mint_amount supplied a success exit is reachable without `reject iff M < expected` (comparisons seen: %s): %s" % (DG.seen, off), fn=hk, found=found)
    mn = lambda t: loaded_field(prog, t, "config", ["protocol_chain_config", "minimum_liquid_stake_amount"], CRATE)
    DG2 = deadline_guard("minimum", paid, mn, {"<"})
    found = []
    ok, off = guarded(h, DG2, prog, env.depth, found)
    R.ob("C04.R3", "LiquidStake:minimum-stake", ok, "a success exit is reachable without `reject iff paid < minimum_liquid_stake_amount` (comparisons seen: %s): %s" % (DG2.seen, off), fn=hk, found=found)
