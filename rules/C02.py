"""C02 Contract-held staked asset equals what it owes: per-transition conservation obligations."""
from .common import *
from . import shared
from .shared import same, agg_field, ibc_denom, is_fee, is_reward
from engine.analysis import storage_ops_deep, must_pass, aggregates_deep

CRATE = "staking"
# reviewed table of value-moving message sites (C02.R6): site -> kinds allowed
PAY_SITES = {
    "instantiate": {"create"},
    "LiquidStake": {"mint", "transfer", "bank"},
    "SubmitBatch": {"burn"},
    "Withdraw": {"bank"},
    "ReceiveRewards": {"transfer", "bank"},
    "RecoverPendingIbcTransfers": {"transfer"},
    "FeeWithdraw": {"bank"},
}


def run(R, env):
    prog = env.prog("default")
    R.rule("C02.R1", "Withdraw: payout = received.multiply_ratio(own request amount, batch total) of the named batch, in the ibc denom, to info.sender, from the contract; the claim (batch id, sender) is removed on every success path; no request / not Received => error exit")
    R.rule("C02.R2", "ReceiveRewards per treasury world: None => total_fees += fee and no bank message; Some(t) => BankMsg::Send{to: t, [(fee, ibc denom)]} on every success path and total_fees untouched; same fee term in both")
    R.rule("C02.R3", "FeeWithdraw: reject iff total_fees < amount; total_fees -= amount; MsgSend carries the same amount in the ibc denom to the configured treasury; no success exit without a treasury")
    R.rule("C02.R4", "recover: the packet whose amount is added to the re-sent total is removed from INFLIGHT_PACKETS under its own sequence in the same iteration; the re-sent coin is that total; receiver is the validated receiver")
    R.rule("C02.R5", "ReceiveUnstakedTokens: received_native_unstaked := Some(amount of the ibc-denom coin in info.funds)")
    R.rule("C02.R6", "value-moving messages (mint, burn, create-denom, bank send, IBC transfer) are constructed only at the reviewed sites")
    R.rule("C02.R7", "refunded transfers: ack / timeout callbacks mark only the contract's own packets on its own channel as refundable, and recovery re-sends exactly the refundable packets of one receiver and one denom (rule bodies of C07.R4-R7)")
    R.assume("balance equality over histories is not decided (no bank exists statically); these are the per-transition conservation steps")
    sites = shared.site_contexts(prog, CRATE, env)
    for need in ("Withdraw", "ReceiveRewards", "FeeWithdraw", "RecoverPendingIbcTransfers", "ReceiveUnstakedTokens"):
        if need not in sites:
            R.ob("C02.R1", need + ":dispatched", False, "no handler", fn="staking::contract::execute")
            return
    shared.withdraw_rules(R, env, prog, sites["Withdraw"], "C02.R1", "C02")

    from engine.runner import Remap
    from . import C07
    C07.run(Remap(R, {"C07.R4": "C02.R7", "C07.R5": "C02.R7", "C07.R6": "C02.R7", "C07.R7": "C02.R7"}), env)
    fee_worlds(R, env, prog, sites, "C02.R2")
    fee_withdraw(R, env, prog, sites, "C02.R3")
    recover_and_rest(R, env, prog, sites)


def fee_worlds(R, env, prog, sites, RULE):
    h = sites["ReceiveRewards"]
    hk = h.body.key
    tp = shared.treasury_pred(prog)
    for want, name in ((False, "None"), (True, "Some")):
        rem, n = world_edges(h, tp, want)
        w = h.with_removed(rem).settle()
        R.worlds += 1
        # (value-level spellings — `treasury.map_or(fee, |_| zero)`, `treasury.map(|t| BankMsg ..)` — have no branch to count:
        # the world is not vacuous if the handler mentions the treasury address at all)
        mentions = any(tp(s_) for c_, p_ in __import__("engine.analysis", fromlist=["inline_walk"]).inline_walk(prog, h, 2) for bi_, t_, a_ in call_sites(c_, lambda nm: True) for x_ in a_ for s_ in subterms(x_))
        R.ob(RULE, "ReceiveRewards:treasury=%s:tests" % name, n >= 1 or mentions, "no test of treasury_address found (the accounting and the payment both depend on it; one merged test or two are fine), found %d" % n, fn=hk)
        fee_writes = []
        from engine.analysis import resolve_terms as _rt2w
        for op, alts in shared.state_writes(prog, w, env):
            for base, d in alts or []:
                v = d.get(("total_fees",))
                if v is not None and v[0] == "mut" and len(v) > 3 and v[3]:
                    # `total_fees += treasury.map_or(fee, |_| zero)`: the operand in this world
                    opnd = _rt2w(prog, v[3][0], 2, None, w.assumptions)
                    if const_int(opnd) == 0:
                        v = None if want else v  # += 0 changes nothing
                    elif opnd is not v[3][0] and not is_fee(prog, v[3][0]):
                        # (only where the operand as written is not recognised: a fee computed from a helper's result is
                        # the fee as it stands, inlining the helper would only hide the reward behind its loop)
                        v = (v[0], v[1], v[2], (opnd,) + tuple(v[3][1:])) + tuple(v[4:])
                if v is not None:
                    fee_writes.append((op, v))
                elif not want:
                    fee_writes.append((op, None))
        banks = [(c, bi, t) for c, path, bi, t in shared.find_msgs(prog, w, env.depth, ["cosmwasm_std::BankMsg", "bank::v1beta1::MsgSend"])]
        if not want:
            good = bool(fee_writes) and all(v is not None and delta_op(v)[0] == "+=" and is_fee(prog, delta_op(v)[1]) and loaded_field(prog, v[1], "state", ["total_fees"], CRATE) for _, v in fee_writes)
            R.ob(RULE, "ReceiveRewards:treasury=None:fee-accrues", good, "without a treasury the saved state does not have `total_fees += fee` on every path", loc=fee_writes[0][0]["loc"] if fee_writes else None, fn=hk)
            R.ob(RULE, "ReceiveRewards:treasury=None:no-bank-message", not banks, "without a treasury a bank message is still built at %s" % [c.body.loc(bi) for c, bi, t in banks], fn=hk)
        else:
            R.ob(RULE, "ReceiveRewards:treasury=Some:fee-not-accrued", not fee_writes, "with a treasury configured total_fees is also increased: the fee is counted twice", loc=fee_writes[0][0]["loc"] if fee_writes else None, fn=hk)
            R.ob(RULE, "ReceiveRewards:treasury=Some:one-bank-message", len(banks) == 1, "with a treasury configured %d bank messages are built" % len(banks), fn=hk)
            for c, bi, t in banks:
                loc = c.body.loc(bi)
                to = agg_field(t, "to_address")
                elems = shared.vec_elems(agg_field(t, "amount") or ("none",)) or []
                amt, den = shared.coin_parts(elems[0]) if len(elems) == 1 else (None, None)
                R.ob(RULE, "ReceiveRewards:treasury=Some:payee", to is not None and to[0] == "payload" and tp(to[1]), "fee is paid to %s, expected the configured treasury" % fmt(to or ("none",))[:120], loc=loc, fn=hk)
                R.ob(RULE, "ReceiveRewards:treasury=Some:amount", amt is not None and is_fee(prog, amt), "fee payment carries %s, expected fee = rate.multiply_ratio(reward, 100000)" % fmt(amt or ("none",))[:160], loc=loc, fn=hk)
                R.ob(RULE, "ReceiveRewards:treasury=Some:denom", ibc_denom(prog, den), "fee payment denom %s" % fmt(den or ("none",))[:80], loc=loc, fn=hk)
                # (the message itself, or — `treasury.map(|t| BankMsg::Send {..})` handed to add_messages — the closure that builds it)
                ok_resp = all(shared.term_in_all_paths(term, lambda s_, t=t, c=c: norm(s_) == norm(t) or (c.body.kind == "closure" and s_[0] == "closure" and s_[1] == c.body.key)) for _, term in success_terms(w))
                R.ob(RULE, "ReceiveRewards:treasury=Some:in-response", ok_resp, "the fee payment does not reach the Response on every success path of this world", loc=loc, fn=hk)



def fee_withdraw(R, env, prog, sites, RULE):
    h = sites["FeeWithdraw"]
    hk = h.body.key
    amount = lambda t: shared.msg_field(t, "FeeWithdraw", "amount")
    fees = lambda t: loaded_field(prog, t, "state", ["total_fees"], CRATE)
    DG = deadline_guard("fee-bound", fees, amount, {"<"})
    found = []
    ok, off = guarded(h, DG, prog, env.depth, found)
    R.ob(RULE, "FeeWithdraw:bound", ok, "FeeWithdraw can succeed without `reject iff total_fees < amount` (comparisons of these operands seen with truth sets %s): %s" % (DG.seen, off), loc=off["loc"] if off else None, fn=hk, found=found)
    sw = shared.state_writes(prog, h, env)
    R.floor(RULE, "STATE writes in FeeWithdraw", len(sw), 1)
    for op, alts in sw:
        good = bool(alts)
        for base, d in alts or []:
            v = d.get(("total_fees",))
            cs = [s for s in subterms(v) if s[0] == "call" and s[1] == "cosmwasm_std::Uint128::checked_sub"] if v is not None else []
            opk = delta_op(v) if v is not None else None
            if not ((len(cs) == 1 and fees(cs[0][2][0]) and amount(cs[0][2][1])) or (opk and opk[0] == "-=" and amount(opk[1]))) or set(d) != {("total_fees",)}:
                good = False
        R.ob(RULE, "FeeWithdraw:delta", good, "saved state is not `total_fees -= amount` only", loc=op["loc"], fn=hk)
        R.ob(RULE, "FeeWithdraw:save-on-every-success-path", must_pass(h, op["root_bb"]), "fees can be paid out without reducing total_fees", loc=op["loc"], fn=hk)
    sends = shared.find_msgs(prog, h, env.depth, ["bank::v1beta1::MsgSend", "cosmwasm_std::BankMsg"])
    R.ob(RULE, "FeeWithdraw:one-payout", len(sends) == 1, "found %d bank sends" % len(sends), fn=hk)
    tp = shared.treasury_pred(prog)
    for c, path, bi, t in sends:
        loc = c.body.loc(bi)
        elems = shared.vec_elems(agg_field(t, "amount") or ("none",)) or []
        amt, den = shared.coin_parts(elems[0]) if len(elems) == 1 else (None, None)
        to = agg_field(t, "to_address")
        from engine.analysis import forms as _forms, ok_payload as _okp
        # (`treasury.ok_or(err)?`, `.as_ref()`, a helper that unwraps it ... all carry the treasury's payload)
        to_forms = ([f for f in _forms(prog, to, 2)] + ([_okp(to[1])] if to[0] == "payload" else [])) if to is not None else []
        # (the amount may come back from a helper: `state.take_fees(amount).ok_or(..)?` handing back what it deducted)
        R.ob(RULE, "FeeWithdraw:payout-amount", amt is not None and shared.via_forms(prog, amount, 3)(amt), "payout carries %s, expected the requested amount" % fmt(amt or ("none",))[:120], loc=loc, fn=hk)
        R.ob(RULE, "FeeWithdraw:payout-denom", ibc_denom(prog, den), "payout denom %s" % fmt(den or ("none",))[:80], loc=loc, fn=hk)
        R.ob(RULE, "FeeWithdraw:payee-is-treasury", to is not None and any(f[0] == "payload" and tp(f[1]) for f in to_forms), "fees go to %s, expected the configured treasury" % fmt(to or ("none",))[:120], loc=loc, fn=hk)
    rem, n = world_edges(h, tp, False)
    w = h.with_removed(rem).settle()
    R.worlds += 1
    succ = [e for e in exits(w) if e["kind"] != "err"]
    unwraps = [w.body.loc(bi) for bi, t, args in call_sites(w, lambda nm: nm in ("std::option::Option::unwrap", "std::option::Option::expect")) if args and tp(args[0])]
    # (not vacuous also when the test is a value inside an accessor, `cfg.treasury()?` = `opt.as_ref().ok_or(..)`: the handler
    # can succeed in general and cannot in the world without a treasury)
    tested = n >= 1 or (not succ and any(e["kind"] != "err" for e in exits(h)))
    R.ob(RULE, "FeeWithdraw:no-treasury-no-success", tested and (not succ or bool(unwraps)) and not (succ and not unwraps), "without a treasury FeeWithdraw has a success exit", fn=hk)
    R.ob(RULE, "FeeWithdraw:no-treasury-error-not-panic", not unwraps, "without a treasury FeeWithdraw reaches an unwrap of treasury_address at %s" % unwraps, fn=hk)



def recover_receiver_ok(prog, rcv):
    """the re-send receiver is the validated `receiver` argument when supplied, else the configured
    staker: `opt.map(validate).transpose()?.unwrap_or(staker)` or the match / if-let spelling of it"""
    if rcv is None:
        return False
    staker = lambda t: loaded_field(prog, t, "config", ["native_chain_config", "staker_address"], CRATE)

    def validated(t):
        if t[0] != "payload":
            return False
        c_ = shared.unwrap_payload(t)
        return c_[0] == "call" and shared._body_of_call(prog, c_) is not None and len(c_[2]) == 2 and any(shared.msg_field(s_, "RecoverPendingIbcTransfers", "receiver") for s_ in subterms(c_[2][0])) and loaded_field(prog, c_[2][1], "config", ["native_chain_config", "account_address_prefix"], CRATE)

    if rcv[0] == "call" and rcv[1] == "std::option::Option::unwrap_or" and staker(rcv[2][1]):
        return True
    if rcv[0] == "call" and rcv[1] == "std::option::Option::unwrap_or_else" and len(rcv[2]) == 2 and rcv[2][1][0] == "closure":
        # .unwrap_or_else(|| config.native_chain_config.staker_address.clone())
        r_ = closure_result(prog, rcv[2][1], params={})
        if r_ is not None and staker(r_):
            return True
    alts = rcv[1] if rcv[0] == "phi" else (rcv,)
    return len(alts) == 2 and any(staker(a) for a in alts) and any(validated(a) for a in alts)


def recover_only(R, env, prog, sites, RULE):
    h = sites["RecoverPendingIbcTransfers"]
    hk = h.body.key
    from engine.analysis import inline_walk as _iw
    inline_adds = [bi for bi, t_, args in call_sites(h, lambda nm: nm.endswith("AddAssign::add_assign"))]
    deep_adds = [1 for c_, p_ in _iw(prog, h, 3) if p_ for bi, t_, args in call_sites(c_, lambda nm: nm.endswith("AddAssign::add_assign"))]
    helper_mode = not inline_adds and bool(deep_adds)
    if helper_mode:
        R.set_undecided([RULE], "recover sums the packets in a helper; only the in-line remove-and-sum loop is modelled")
    rms = [op for op in storage_ops_deep(prog, h, env.depth) if op["kind"] == "w" and ns_of(prog, op["args"][0]) == "inflight"]
    trs = shared.transfers(prog, h, env)
    R.ob(RULE, "recover:one-resend", len(trs) == 1, "found %d IBC transfers in recover" % len(trs), fn=hk)
    R.ob(RULE, "recover:removes", len(rms) >= 1 and all(o["op"] == "remove" for o in rms), "INFLIGHT_PACKETS writes in recover: %s" % [o["op"] for o in rms], fn=hk)
    elem = None
    for op in rms:
        k = op["args"][2]
        good = k[0] == "field" and k[2] == "sequence" and k[1][0] == "payload" and k[1][1][0] == "call" and k[1][1][1].endswith("Iterator::next")
        R.ob(RULE, "recover:remove-by-own-sequence", good, "packet removed under key %s, expected <element>.sequence of the iteration" % fmt(k)[:160], loc=op["loc"], fn=hk)
        if good:
            elem = k[1]
    if helper_mode and elem is not None and elem[1][0] == "call" and elem[1][2]:
        # the sum lives in a helper f(P): what is decided here is that the P it is given is the very collection value
        # the removal loop iterates.  Two different versions of one collection (one of them truncated / retained /
        # extended in between) are a contradiction: what is re-sent is not what is forgotten.
        def versions(x):
            out, stack = [], [x]
            while stack:
                y = stack.pop()
                if y in out:
                    continue
                out.append(y)
                if y[0] == "mut":
                    stack.append(norm(y[1]))
                elif y[0] == "phi":
                    stack.extend(norm(z) for z in y[1])
                elif y[0] == "call" and y[1] in ("std::ops::Index::index", "core::slice::get") and y[2]:
                    stack.append(norm(y[2][0]))  # a sub-slice `&xs[..n]` is a version of xs
                elif y[0] == "subslice":
                    stack.append(norm(y[1]))
                elif y[0] == "payload" and y[1][0] == "call" and y[1][1].split("::")[-1] in ("split_first", "split_last", "get", "first_chunk") and y[1][2]:
                    stack.append(norm(y[1][2][0]))
                elif y[0] == "field" and y[2] in ("0", "1"):
                    stack.append(norm(y[1]))
            return out
        Pn = norm(elem[1][2][0])
        for t in trs:
            amts_ = [x_ for x_ in (t.get("amount_raw"), t["amount"]) if x_ is not None]  # (as written: the helper call with its argument)
            cands = [norm(a) for am_ in amts_ for s_ in subterms(am_) if s_[0] == "call" and prog.body(s_[1]) is not None for a in s_[2]]
            # an in-line fold / sum / try_fold: the collection it runs over (iterator adaptors peeled)
            for am_ in amts_:
                for s_ in subterms(am_):
                    if s_[0] == "call" and s_[1].split("::")[-1] in ("fold", "sum", "try_fold") and "Iterator" in s_[1] and s_[2]:
                        r_ = s_[2][0]
                        while r_[0] == "call" and "Iterator::" in r_[1] and r_[1].split("::")[-1] in ("map", "copied", "cloned", "iter", "into_iter", "by_ref") and r_[2]:
                            r_ = r_[2][0]
                        cands.append(norm(r_))
            if any(a == Pn for a in cands):
                verdict = True
            else:
                vp = versions(Pn)
                rel = [a for a in cands if a != Pn and (a in vp or Pn in versions(a) or any(v[0] == "call" and v in vp for v in versions(a)))]
                verdict = False if rel else None
            if verdict is not None:
                R.clear_undecided([RULE])
                R.ob(RULE, "recover:summed-collection-is-the-removed-one", verdict, "the helper that sums the re-sent amount is given %s, while the removal loop iterates another version of that collection, %s" % ([fmt(a)[:60] for a in cands][:2], fmt(Pn)[:60]), loc=t["loc"], fn=hk)
                R.set_undecided([RULE], "recover sums the packets in a helper; only the in-line remove-and-sum loop is modelled")

    def fold_sum(amt):
        """amt = P.iter().fold(0, |acc, p| acc + p.amount.amount): returns P, else None"""
        for s_ in (subterms(amt) if amt is not None else []):
            if s_[0] == "call" and s_[1].endswith("Iterator::fold") and len(s_[2]) == 3 and s_[2][2][0] == "closure":
                coll, init, clo = s_[2]
                res = closure_result(prog, clo, params={2: ("acc",), 3: ("elem",)})
                zero_ = const_int(init) == 0
                okb = res is not None and res[0] == "call" and res[1] == "std::ops::Add::add" and {norm(res[2][0]), norm(res[2][1])} == {norm(("acc",)), norm(("field", ("field", ("elem",), "amount"), "amount"))}
                if zero_ and okb:
                    return coll
                # the accumulator is the Coin itself: fold(Coin::new(0, d), |mut total, p| { total.amount += p.amount.amount; total })
                zero_c = init[0] == "call" and init[1] == "cosmwasm_std::Coin::new" and len(init[2]) == 2 and const_int(init[2][0]) == 0
                okc = res is not None and norm(res) == norm(("upd", ("acc",), ("amount",), ("mut", ("field", ("acc",), "amount"), "std::ops::AddAssign::add_assign", (("field", ("field", ("elem",), "amount"), "amount"),))))
                if zero_c and okc:
                    return coll
            if s_[0] == "call" and s_[1].endswith("Iterator::sum") and s_[2] and s_[2][0][0] == "call" and s_[2][0][1].endswith("Iterator::map") and len(s_[2][0][2]) == 2 and s_[2][0][2][1][0] == "closure":
                # P.iter().map(|p| p.amount.amount).sum()
                coll, clo = s_[2][0][2]
                res = closure_result(prog, clo, params={2: ("elem",)})
                if res is not None and norm(res) == norm(("field", ("field", ("elem",), "amount"), "amount")):
                    return coll
        return None

    for t in trs:
        amt = t["amount"]
        fcoll = fold_sum(amt)
        if fcoll is None and amt is None:
            # the coin of the transfer is itself the result of the fold
            amt = shared.agg_field(t["term"], "token")
            fcoll = fold_sum(amt)
        if fcoll is not None and elem is not None and not [s for s in subterms(amt) if s[0] == "mut" and s[2].endswith("AddAssign::add_assign")]:
            # fold spelling: the sum runs over the same collection the removal loop iterates, and the
            # removal is executed in every iteration of its loop
            same_coll = elem[1][0] == "call" and elem[1][1].endswith("Iterator::next") and norm(elem[1][2][0]) == norm(fcoll)
            R.clear_undecided([RULE])  # (a comparison of two collection values: exact whatever the shape of the handler)
            R.ob(RULE, "recover:sum-of-removed", same_coll, "the total is folded over %s but the packets removed are those of %s" % (fmt(fcoll)[:80], fmt(elem)[:80]), loc=t["loc"], fn=hk)
            R.ob(RULE, "recover:sum-starts-at-zero", True, "fold starts at 0", loc=t["loc"], fn=hk)
            R.ob(RULE, "recover:resend-on-every-success-path", must_pass(h, t["root_bb"]) and shared.response_contains_call_at(h, t["root_bb"]), "recover can succeed without re-sending", loc=t["loc"], fn=hk)
            R.ob(RULE, "recover:receiver", recover_receiver_ok(prog, t["receiver"]), "re-send goes to %s, expected validated receiver or the configured staker" % fmt(t["receiver"] or ("none",))[:160], loc=t["loc"], fn=hk)
            for op in rms:
                heads = [bi for bi, t_, args in call_sites(h, lambda nm: nm == "std::iter::Iterator::next") if norm(h.T.call_term(t_, bi)) == norm(elem[1])]
                every = False
                cbx = prog.body(op["fn"])
                if not heads and cbx is not None and cbx.kind == "closure" and op.get("bb") is not None:
                    # `packets.iter().for_each(|p| INFLIGHT_PACKETS.remove(storage, p.sequence))`: the closure runs for every
                    # element; the removal is on every path through it
                    every = must_pass(Ctx(cbx), op["bb"])
                if len(heads) == 1:
                    r_ = set()
                    for s_ in h.body.succs()[heads[0]]:
                        r_ |= h.body.reachable(h.removed, removed_blocks=frozenset([op["root_bb"]]), start=s_)
                    every = heads[0] not in r_
                R.ob(RULE, "recover:remove-and-add-paired", every, "a packet that is summed is not removed in every iteration of the removal loop", loc=op["loc"], fn=hk)
            R.clear_undecided([RULE])
            return
        # amount = total.amount, a loop-carried sum: every += operand must be <same element>.amount.amount
        adds = [s for s in subterms(amt) if s[0] == "mut" and s[2].endswith("AddAssign::add_assign")] if amt is not None else []
        good = bool(adds) and elem is not None and all(a[3][0] == ("field", ("field", elem, "amount"), "amount") for a in adds)
        R.ob(RULE, "recover:sum-of-removed", good, "re-sent amount accumulates %s; expected `+= <element>.amount.amount` of the SAME element that is removed" % [fmt(a[3][0])[:100] for a in adds][:3], loc=t["loc"], fn=hk)
        # the values the running total has before the first addition: peel the `+=` layers and merges
        starts, stack, seen_ = [], [amt] if amt is not None else [], set()
        while stack:
            x = stack.pop()
            if id(x) in seen_:
                continue
            seen_.add(id(x))
            if x[0] == "phi":
                stack.extend(x[1])
            elif x[0] == "mut" and x[2].endswith("AddAssign::add_assign"):
                stack.append(x[1])
            elif x[0] == "field" and x[2] == "amount" and x[1][0] in ("phi", "mut", "cycle"):
                stack.append(x[1])
            elif x[0] == "cycle" or (x[0] == "field" and x[1][0] == "cycle"):
                continue
            else:
                starts.append(x)
        is0 = lambda x: const_int(x) == 0 or (x[0] == "field" and x[2] == "amount" and x[1][0] == "call" and x[1][1] == "cosmwasm_std::Coin::new" and const_int(x[1][2][0]) == 0)
        R.ob(RULE, "recover:sum-starts-at-zero", bool(starts) and all(is0(x) for x in starts), "the running total does not start at 0 (initial values: %s)" % [fmt(x)[:60] for x in starts][:4], loc=t["loc"], fn=hk)
        # removal and addition in the same loop body: both blocks on every path through the iteration
        R.ob(RULE, "recover:resend-on-every-success-path", must_pass(h, t["root_bb"]) and shared.response_contains_call_at(h, t["root_bb"]), "recover can succeed without re-sending", loc=t["loc"], fn=hk)
        rcv = t["receiver"]
        rgood = recover_receiver_ok(prog, rcv)
        R.ob(RULE, "recover:receiver", rgood, "re-send goes to %s, expected validated receiver or the configured staker" % fmt(rcv or ("none",))[:160], loc=t["loc"], fn=hk)
    # pairing inside the loop: the add_assign call block and the remove block dominate each other's loop back edge
    for op in rms:
        addbbs = [bi for bi, t_, args in call_sites(h, lambda nm: nm.endswith("AddAssign::add_assign"))]
        heads = [bi for bi, t_, args in call_sites(h, lambda nm: nm == "std::iter::Iterator::next") if elem is not None and norm(h.T.call_term(t_, bi)) == norm(elem[1])]
        paired = bool(addbbs) and len(heads) == 1 and all(pair_in_iteration(h, op["root_bb"], ab, heads[0]) for ab in addbbs)
        R.ob(RULE, "recover:remove-and-add-paired", paired, "a packet can be added to the total without being removed (or removed without being added) in one iteration", loc=op["loc"], fn=hk)
    R.clear_undecided([RULE])



def recover_and_rest(R, env, prog, sites):
    recover_only(R, env, prog, sites, "C02.R4")
    # ------------------------------------------------------------ R5
    h = sites["ReceiveUnstakedTokens"]
    hk = h.body.key
    n = 0
    for op in storage_ops_deep(prog, h, env.depth):
        if op["kind"] == "w" and ns_of(prog, op["args"][0]) == "batches":
            n += 1
            vals = [s[3] for s in subterms(op["args"][-1]) if s[0] == "upd" and s[2] == ("received_native_unstaked",)]
            if not vals:
                # struct-update syntax / update closure: the same field of the value written
                vals = [d_[("received_native_unstaked",)] for b_, d_ in shared.write_value_alternatives(prog, op, "batches") or [] if ("received_native_unstaked",) in d_]
            good = len(vals) == 1 and vals[0][0] == "agg" and vals[0][2] == "Some" and is_reward(prog, vals[0][3][0][2])
            R.ob("C02.R5", "ReceiveUnstakedTokens:received-amount", good, "received_native_unstaked := %s; expected Some(amount of the ibc-denom coin in info.funds)" % [fmt(v)[:120] for v in vals], loc=op["loc"], fn=hk)
    R.floor("C02.R5", "BATCHES writes in ReceiveUnstakedTokens", n, 1)
    allw = [(ns_of(prog, o["args"][0]), o["op"]) for o in storage_ops_deep(prog, h, env.depth) if o["kind"] == "w"]
    R.ob("C02.R5", "ReceiveUnstakedTokens:write-set", allw == [("batches", "save")], "storage writes %s; expected only the batch save (tokens delivered for a batch are owed to its requesters, not to any other account or counter)" % allw, fn=hk)

    # ------------------------------------------------------------ R6 who may pay
    nsite = 0
    for site, c in sites.items():
        kinds = set()
        locs = {}
        for m in shared.tf_messages(prog, c, env):
            kinds.add(m["kind"]); locs[m["kind"]] = m["loc"]
        for t in shared.transfers(prog, c, env):
            kinds.add("transfer"); locs["transfer"] = t["loc"]
        for cc, path, bi, t in shared.find_msgs(prog, c, env.depth + 1, ["bank::v1beta1::MsgSend", "cosmwasm_std::BankMsg"]):
            kinds.add("bank"); locs["bank"] = cc.body.loc(bi)
        if kinds:
            nsite += 1
        for k in sorted(kinds):
            R.ob("C02.R6", "pay-site:%s:%s" % (site, k), k in PAY_SITES.get(site, set()), "%s constructs a value-moving message of kind `%s`, not in the reviewed table %s" % (site, k, {s: sorted(v) for s, v in PAY_SITES.items()}), loc=locs.get(k), fn=c.body.key)
    R.floor("C02.R6", "sites constructing value-moving messages", nsite, 7)


def pair_in_iteration(h, a, b, head=None):
    """blocks a and b are executed together in every loop iteration: with `head` the block of the
    Iterator::next call of the loop, every path head -> head (and head -> exit) that passes one of
    them passes the other."""
    body = h.body
    if head is None:
        return False

    def reach(src, avoid):
        return body.reachable(h.removed, removed_blocks=frozenset([avoid]), start=src)

    def ordered(x, y):  # x first, then y
        # from x (without y) the loop head is not reachable again, and from the head (without x) y is not reachable
        r1 = set()
        for s_ in body.succs()[x]:
            r1 |= reach(s_, y)
        r2 = set()
        for s_ in body.succs()[head]:
            r2 |= reach(s_, x)
        return head not in r1 and y not in r2

    return ordered(a, b) or ordered(b, a)
