"""Rule primitives P1–P13 of DESIGN.md section 4, on top of engine.mir."""
from .mir import Terms, call_name, strip_generics, subterms, contains, fmt, norm, short

OK_VARIANTS = {"Ok", "Some", "Continue"}
ERR_VARIANTS = {"Err", "None", "Break"}

IS_TESTS = {
    # callee -> outcome (truth value of the bool) that means "subject is Ok/Some"
    "std::result::Result::is_ok": True,
    "std::result::Result::is_err": False,
    "std::option::Option::is_some": True,
    "std::option::Option::is_none": False,
}


class Ctx:
    """a body analysed in one world (set of pruned edges) with optional parameter/capture bindings."""

    def __init__(self, body, removed=frozenset(), params=None, captures=None, assumptions=()):
        self.body = body
        self.removed = frozenset(removed)
        self.T = Terms(body, removed, captures=captures, params=params)
        self._atoms = None
        self.assumptions = tuple(assumptions)  # ((predicate on a boolean term, truth value), ...)
        self.level = 0  # interprocedural evaluation depth (callee evaluated on behalf of a caller)

    @property
    def prog(self):
        return self.body.prog

    @prog.setter
    def prog(self, v):
        pass

    def with_removed(self, more):
        """the same body with more edges pruned.  A world set produced by world_edges & co. also
        carries the assumption it stands for, so that callees analysed from this context (sub())
        are pruned consistently."""
        extra = tuple(a for a in getattr(more, "assume", ()) if a not in self.assumptions)
        c = Ctx(self.body, self.removed | frozenset(more), self.T.params, self.T.captures, self.assumptions + extra)
        c.level = self.level
        return c

    def sub(self, body, params=None, captures=None):
        """context of a callee / closure analysed on behalf of this one: same world assumptions."""
        c = Ctx(body, params=params, captures=captures, assumptions=self.assumptions)
        c.level = self.level
        # settled: branches decided by the arguments (a mode flag, a fresh enum value) or by the
        # world are pruned in the callee as well
        return c.settle()

    def assume_bool(self, pred, value):
        """world assumption: every boolean term accepted by `pred` has truth value `value`
        (used for tests that are stored in a variable / merged before being branched on)."""
        return Ctx(self.body, self.removed, self.T.params, self.T.captures, self.assumptions + ((pred, value),))

    def assume_variant(self, pred, name):
        """world assumption: every enum value accepted by `pred` is of variant `name`."""
        return Ctx(self.body, self.removed, self.T.params, self.T.captures, self.assumptions + ((pred, ("variant", name)),))

    def assume_int(self, pred, value):
        """world assumption: every integer term accepted by `pred` has this value"""
        c = Ctx(self.body, self.removed, self.T.params, self.T.captures, self.assumptions + ((pred, ("int", int(value))),))
        c.level = self.level
        return c

    def assume_len(self, pred, value):
        """world assumption: every str / Vec / slice term accepted by `pred` has this length
        (decides len() comparisons, is_empty(), slice patterns and range tests on the length)"""
        c = Ctx(self.body, self.removed, self.T.params, self.T.captures, self.assumptions + ((pred, ("len", int(value))),))
        c.level = self.level
        return c

    def assume_ok(self, pred, ok):
        """world assumption: every Option/Result value accepted by `pred` is Some/Ok (ok) or None/Err."""
        return Ctx(self.body, self.removed, self.T.params, self.T.captures, self.assumptions + ((pred, ("ok", bool(ok))),))

    def _assumed_variant(self, subj):
        for pred, value in self.assumptions:
            if isinstance(value, tuple) and value[0] == "variant" and pred(subj):
                return value[1]
            if isinstance(value, tuple) and value[0] == "variantfn":
                v = value[1](subj)
                if v is not None:
                    return v
        return None

    def assume(self, *entries):
        """ctx with raw assumption entries (pred, value) added"""
        c = Ctx(self.body, self.removed, self.T.params, self.T.captures, self.assumptions + tuple(entries))
        c.level = self.level
        return c

    def _assumed_ok(self, subj, _d=0):
        if subj[0] == "payload" and subj[2] == "Ok/Some":
            i_ = subj[1][1] if subj[1][0] == "trybranch" else subj[1]
            if i_[0] == "call" and i_[1] in ("std::option::Option::map", "std::result::Result::map") and len(i_[2]) == 2 and i_[2][1][0] == "fn" and _ctor_of(i_[2][1]) is None:
                # the payload of x.map(f) for a function item f: f(payload of x), e.g. `s.strip_prefix(p).map(str::parse::<u64>)`
                subj = ok_payload(i_)
        r = assumed_ok(self.assumptions, subj)
        if r is None and self.assumptions and subj[0] == "call" and (subj[1] in SOMENESS_PRESERVING or subj[1] in OKNESS_PRESERVING) and subj[2] and _d < 4:
            # helper(..).map(f).ok_or(e): Ok exactly when the helper's result is Some in this world
            inner = subj[2][0][1] if subj[2][0][0] == "trybranch" else subj[2][0]
            return self._assumed_ok(inner, _d)
        if r is None and subj[0] == "call" and self.assumptions and _d < 2:
            # an Option/Result computed by a small local function: its Some/Ok-ness in this world
            cb = _callee_body(self.prog, subj)
            if cb is not None and cb.kind == "fn" and len(cb.blocks) < 200:
                rt = self._callee_return(subj, cb)
                if rt is not None:
                    vals = set()
                    for a in (rt[1] if rt[0] == "phi" else (rt,)):
                        if a[0] == "agg" and a[2] in ("Some", "Ok"):
                            vals.add(True)
                        elif a[0] == "agg" and a[2] in ("None", "Err"):
                            vals.add(False)
                        elif a[0] == "call" and a[1] == "std::ops::FromResidual::from_residual":
                            vals.add(False)
                        else:
                            v = self._assumed_ok(a, _d + 1)
                            vals.add(v)
                    if len(vals) == 1 and None not in vals:
                        return vals.pop()
        if r is None and self.assumptions and subj[0] == "call" and subj[1].split("::")[-1] in ("then_some", "then") and "bool" in subj[1] and subj[2]:
            # cond.then_some(x) is Some exactly when cond holds in this world
            v_ = self._assumed(subj[2][0])
            if v_[0] == "const" and v_[1] == "bool":
                return bool(v_[2])
        if r is None and self.assumptions and subj[0] == "call" and subj[1] in ("std::option::Option::map_or", "std::result::Result::map_or") and len(subj[2]) == 3 and _d < 4:
            # opt.map_or(D, f) as an Option / Result value (`stopped.then_some(Halted).map_or(Ok(()), Err)`): D where the
            # world says opt is None, f(payload) where it says Some
            inner = self._assumed_ok(subj[2][0], _d + 1)
            if inner is False:
                return self._assumed_ok(subj[2][1], _d + 1)
            if inner is True:
                f_ = subj[2][2]
                if f_[0] == "fn" and _ctor_of(f_) is not None:
                    v_ = _ctor_of(f_)[1]
                    return True if v_ in ("Ok", "Some") else (False if v_ in ("Err", "None") else None)
                if f_[0] == "closure":
                    r_ = _closure_on(f_, ok_payload(subj[2][0]))
                    if r_ is not None:
                        vals = set(self._assumed_ok(a, _d + 1) for a in (r_[1] if r_[0] == "phi" else (r_,)))
                        if len(vals) == 1 and None not in vals:
                            return vals.pop()
        if r is None and self.assumptions and subj[0] == "call" and subj[1] in ("std::option::Option::and_then", "std::result::Result::and_then") and len(subj[2]) == 2 and _d < 4:
            # x.and_then(f) is Some / Ok exactly when x is and f(payload of x) is
            inner = self._assumed_ok(subj[2][0], _d)
            if inner is False:
                return False
            if subj[2][1][0] == "closure" and self.level < 3:
                cb = self.prog.body(subj[2][1][1])
                if cb is not None:
                    caps = {n: v for _, n, v in subj[2][1][2]}
                    cc = Ctx(cb, params={2: ok_payload(subj[2][0])}, captures=caps, assumptions=self.assumptions)
                    cc.level = self.level + 1
                    cc = cc.settle()
                    rt = cc.T.return_term()
                    vals = set(cc._assumed_ok(a, _d + 1) for a in (rt[1] if rt[0] == "phi" else (rt,)))
                    if vals == {False}:
                        return False
                    if vals == {True} and inner is True:
                        return True
        if r is None and subj[0] == "call" and subj[1] == "std::option::Option::filter" and len(subj[2]) == 2 and subj[2][1][0] == "closure":
            # x.filter(p) is Some exactly when x is Some and p(x) holds
            inner = self._assumed_ok(subj[2][0])
            if inner is False:
                return False
            cb = self.prog.body(subj[2][1][1])
            if cb is not None and self.level < 3:
                caps = {n: v for _, n, v in subj[2][1][2]}
                cc = Ctx(cb, params={2: ok_payload(subj[2][0])}, captures=caps, assumptions=self.assumptions)
                cc.level = self.level + 1
                rt = cc.settle().T.return_term()
                if not (rt[0] == "const" and rt[1] == "bool"):
                    rt = self._assumed(rt, 1)
                if rt[0] == "const" and rt[1] == "bool":
                    if rt[2] is False:
                        return False
                    return inner
        return r

    def _assumed(self, t, _d=0):
        if self.assumptions and t[0] == "phi" and _d < 3:
            # `a && b` as a value (`let ok = !xs.is_empty() && xs.iter().position(..).is_some();`): false | b
            vs_ = [self._assumed(a_, _d + 1) for a_ in t[1]]
            if vs_ and all(v_[0] == "const" and v_[1] == "bool" for v_ in vs_) and len(set(v_[2] for v_ in vs_)) == 1:
                return vs_[0]
        if self.assumptions and t[0] == "call" and t[1] in ("std::option::Option::map_or", "std::result::Result::map_or") and len(t[2]) == 3 and t[2][1][0] == "const" and t[2][1][1] == "bool" and t[2][2][0] == "closure":
            # opt.map_or(false, f) is opt.is_some_and(f); opt.map_or(true, f) is opt.is_none_or(f)
            t = ("call", "std::option::Option::" + ("is_none_or" if t[2][1][2] else "is_some_and"), (t[2][0], t[2][2]))
        if self.assumptions and t[0] == "call" and t[1].split("::")[-1] in ("is_none_or", "is_some_and", "is_ok_and", "is_err_and") and len(t[2]) == 2 and t[2][1][0] == "closure" and _d < 3:
            # opt.is_none_or(f) / opt.is_some_and(f) / res.is_ok_and(f): decided by the Some/Ok-ness of the receiver in
            # this world and, where f applies, by f(payload)
            last_ = t[1].split("::")[-1]
            a_ = self._assumed_ok(t[2][0])
            applies = {"is_none_or": True, "is_some_and": True, "is_ok_and": True, "is_err_and": False}[last_]
            if a_ is not None and a_ != applies:
                return ("const", "bool", last_ == "is_none_or")
            if a_ is not None and self.level < 3:
                cb_ = self.prog.body(t[2][1][1])
                if cb_ is not None:
                    caps_ = {n: v for _, n, v in t[2][1][2]}
                    cc_ = Ctx(cb_, params={2: ok_payload(t[2][0])}, captures=caps_, assumptions=self.assumptions)
                    cc_.level = self.level + 1
                    rt_ = cc_.settle().T.return_term()
                    if not (rt_[0] == "const" and rt_[1] == "bool"):
                        rt_ = cc_._assumed(rt_, _d + 1)
                    if rt_[0] == "const" and rt_[1] == "bool":
                        return rt_
        if self.assumptions and t[0] == "payload":
            # `helper(..)?` where the helper answers Ok(bool): evaluate it in this world
            c0 = t[1][1] if t[1][0] == "trybranch" else t[1]
            if c0[0] == "call":
                cb = _callee_body(self.prog, c0)
                if cb is not None and cb.kind == "fn" and len(cb.blocks) < 200:
                    rt = self._callee_return(c0, cb)
                    if rt is not None:
                        v = ok_payload(rt)
                        if v[0] == "const" and v[1] == "bool":
                            return v
                        if v[0] != "payload" and _d < 2:
                            # the helper returns the test itself (`Ok(a == b)`): decide it here
                            v2 = self._assumed(v, _d + 1)
                            if v2[0] == "const" and v2[1] == "bool":
                                return v2
        if self.assumptions and t[0] == "call" and t[1].split("::")[-1] in ("call", "call_once", "call_mut") and "ops::Fn" in t[1] and t[2] and t[2][0][0] == "closure" and _d < 2:
            # a local closure called on the spot (`let is_monitor = || ..; if is_monitor() ..`)
            clo = t[2][0]
            cb = self.prog.body(clo[1])
            if cb is not None and self.level < 3:
                caps = {n: v for _, n, v in clo[2]}
                # the arguments of the call (`has_prefix(&cfg.prefix)`): Fn::call(closure, (a0, a1, ..))
                cargs = t[2][1][1] if len(t[2]) > 1 and t[2][1][0] == "tuple" else ()
                cc = Ctx(cb, params={i_ + 2: a_ for i_, a_ in enumerate(cargs)}, captures=caps, assumptions=self.assumptions)
                cc.level = self.level + 1
                rt = cc.settle().T.return_term()
                if rt[0] == "const" and rt[1] == "bool":
                    return rt
                if rt[0] in ("call", "bin", "un"):
                    v2 = self._assumed(rt, _d + 1)
                    if v2[0] == "const" and v2[1] == "bool":
                        return v2
        if self.assumptions and getattr(self, "prog", None) is not None and t[0] == "call":
            # a boolean computed by a small local function: evaluate it under the same assumptions
            cb = _callee_body(self.prog, t)
            if cb is not None and cb.key != self.body.key and cb.kind == "fn" and len(cb.blocks) < 120 and cb.j.get("ret_ty") == "bool":
                rt = self._callee_return(t, cb)
                if rt is not None and rt[0] == "const" and rt[1] == "bool":
                    return rt
                if rt is not None and rt[0] in ("call", "bin", "un") and _d < 2:
                    v2 = self._assumed(rt, _d + 1)
                    if v2[0] == "const" and v2[1] == "bool":
                        return v2
        if t[0] == "call" and t[1] in IS_TESTS and t[2]:
            a = self._assumed_ok(t[2][0])
            if a is not None:
                return ("const", "bool", a == IS_TESTS[t[1]])
        if any(isinstance(v, tuple) and v[0] in ("int", "len") for _, v in self.assumptions):
            co = cmp_operands(t)
            if co is not None:
                va, vb = assumed_int(self.assumptions, co[1]), assumed_int(self.assumptions, co[2])
                if va is not None and vb is not None:
                    return ("const", "bool", bool(_CMP[co[0]](va, vb)))
            if t[0] == "call" and t[1].endswith("::is_zero") and t[1].startswith("cosmwasm_std::Uint") and t[2]:
                vz = assumed_int(self.assumptions, t[2][0])
                if vz is not None:
                    return ("const", "bool", vz == 0)
            if t[0] == "call" and t[1] in EMPTY_CALLS and t[2]:
                for pred, value in self.assumptions:
                    if isinstance(value, tuple) and value[0] == "len" and pred(t[2][0]):
                        return ("const", "bool", value[1] == 0)
            if t[0] == "call" and t[1].split("::")[-1] == "contains" and "ops::Range" in t[1] and len(t[2]) == 2:
                rng, y = t[2]
                vy = assumed_int(self.assumptions, y)
                lo = hi = None
                incl = "RangeInclusive" in t[1]
                if rng[0] == "agg":
                    f = {n: v for _, n, v in rng[3]}
                    lo, hi = f.get("start"), f.get("end")
                elif rng[0] == "call" and rng[1].endswith("RangeInclusive::new") and len(rng[2]) == 2:
                    lo, hi = rng[2]
                if vy is not None and lo is not None and hi is not None:
                    vlo, vhi = assumed_int(self.assumptions, lo), assumed_int(self.assumptions, hi)
                    if vlo is not None and vhi is not None:
                        return ("const", "bool", vlo <= vy and (vy <= vhi if incl else vy < vhi))
        for pred, value in self.assumptions:
            if isinstance(value, tuple):
                continue
            neg = False
            x = t
            while x[0] == "un" and x[1] == "Not":
                x = x[2]
                neg = not neg
            if callable(value):
                v = value(x)
                if v is not None:
                    return ("const", "bool", v != neg)
                continue
            if pred(x):
                return ("const", "bool", value != neg)
        return t

    def _callee_return(self, callterm, cb):
        """return term of a small local callee evaluated in this world (None beyond the depth bound)"""
        if self.level >= 3 or cb.key == self.body.key:
            return None
        cc = Ctx(cb, params={i + 1: a for i, a in enumerate(callterm[2])}, assumptions=self.assumptions)
        cc.level = self.level + 1
        cc = cc.settle()
        return cc.T.return_term()

    def determined_edges(self):
        """edges that cannot be taken because, in this (pruned) graph, the tested value is a
        freshly built enum value of known variant(s) or a boolean constant on every reaching path."""
        rem = set()
        for bi, atom in self.atoms():
            if self.assumptions and getattr(self, "prog", None) is not None:
                # interprocedural: a tested local call that cannot succeed under the assumptions
                rt = result_test(atom)
                if rt is not None and rt[0][0] == "call" and rt[0][1].startswith("cw_storage_plus::") and rt[0][1].endswith("::update") and rt[0][2] and rt[0][2][-1][0] == "closure" and self.level < 3:
                    # ITEM.update(storage, closure) succeeds only if the closure does
                    cc = update_closure_ctx(self.prog, rt[0], self.assumptions)
                    if cc is not None:
                        cc.level = self.level + 1
                        if not success_exits(cc.settle()):
                            for tg in rt[1]:
                                if tg not in rt[2]:
                                    rem.add((bi, tg))
                if rt is not None and rt[0][0] == "call" and rt[0][1].split("::")[-1] in ("call", "call_once", "call_mut") and "ops::Fn" in rt[0][1] and rt[0][2] and rt[0][2][0][0] == "closure" and self.level < 3:
                    # a closure handed in by the caller and called here (`edit(list, &x)?`): Ok only if the closure can be
                    cl_ = rt[0][2][0]
                    cbq_ = self.prog.body(cl_[1])
                    if cbq_ is not None:
                        cargs_ = rt[0][2][1][1] if len(rt[0][2]) > 1 and rt[0][2][1][0] == "tuple" else ()
                        cq_ = Ctx(cbq_, params={i_ + 2: a_ for i_, a_ in enumerate(cargs_)}, captures={n: v for _, n, v in cl_[2]}, assumptions=self.assumptions)
                        cq_.level = self.level + 1
                        if not success_exits(cq_.settle()):
                            for tg in rt[1]:
                                if tg not in rt[2]:
                                    rem.add((bi, tg))
                if rt is not None and rt[0][0] == "call":
                    cb = _callee_body(self.prog, rt[0])
                    if cb is not None and cb.key != self.body.key and cb.kind == "fn" and len(cb.blocks) < 120:
                        cc = Ctx(cb, params={i + 1: a for i, a in enumerate(rt[0][2])}, assumptions=self.assumptions)
                        cc.level = self.level + 1
                        cc = cc.settle() if self.level < 3 else cc
                        if self.level < 3 and not success_exits(cc):
                            for tg in rt[1]:
                                if tg not in rt[2]:
                                    rem.add((bi, tg))
            if atom[0] == "variant" and self.assumptions:
                rt = result_test(atom)
                if rt is not None:
                    a = self._assumed_ok(rt[0])
                    if a is not None:
                        good, bad = (rt[1], rt[2]) if a else (rt[2], rt[1])
                        for tg in bad:
                            if tg not in good:
                                rem.add((bi, tg))
            if atom[0] == "variant":
                subj = atom[1]
                if self.assumptions:
                    s0 = subj[1] if subj[0] == "trybranch" else subj
                    unwrap = False
                    if s0[0] == "payload" and s0[2] == "Ok/Some":
                        # `match helper(..)? { A(..) => .., B(..) => .. }`: the Ok value of the helper
                        s1 = s0[1][1] if s0[1][0] == "trybranch" else s0[1]
                        if s1[0] == "call":
                            s0, unwrap = s1, True
                    if s0[0] == "call":
                        cb = _callee_body(self.prog, s0)
                        if cb is not None and cb.kind == "fn" and len(cb.blocks) < 200:
                            rt = self._callee_return(s0, cb)
                            if rt is not None and unwrap:
                                rt = ok_payload(rt)
                            if rt is not None and rt[0] == "call":
                                # the callee answers with a combinator over an assumed value (`opt.map_or(A, |x| B { x })`)
                                rt = resolve_terms(self.prog, rt, 1, None, self.assumptions)
                            if rt is not None:
                                ra = rt[1] if rt[0] == "phi" else (rt,)
                                # `?` inside the callee: an error variant of unknown payload
                                ra = [(("agg", "?", "Err", ()) if (a[0] == "call" and a[1] == "std::ops::FromResidual::from_residual") else a) for a in ra]
                                if all(a[0] == "agg" for a in ra):
                                    subj = Terms._phi(list(ra))
                                    if any(a[1] == "?" for a in ra):
                                        subj = Terms._phi(list(ra) + [("agg", "?", "None", ())])
                if self.assumptions and self.level < 2 and subj[0] in ("field", "payload") and any(s_[0] == "call" and _callee_body(self.prog, s_) is not None for s_ in subterms(subj)):
                    # e.g. `if let Some(x) = validated_update.native_chain_config`: the value comes out of
                    # a local helper — evaluate it in this world
                    rs = resolve_terms(self.prog, subj, 2, None, self.assumptions)
                    ra = rs[1] if rs[0] == "phi" else (rs,)
                    if all(a[0] == "agg" for a in ra):
                        subj = rs
                av = self._assumed_variant(subj)
                if av is not None and av in atom[2]:
                    good = atom[2][av]
                    for n, tgs in atom[2].items():
                        if n != av:
                            for tg in tgs:
                                if tg not in good:
                                    rem.add((bi, tg))
                alts = subj[1] if subj[0] == "phi" else (subj,)
                if all(a[0] == "agg" for a in alts):
                    vs = set(a[2] for a in alts)
                    if set(atom[2]) <= {"Continue", "Break"}:
                        # the switch is on Try::branch(subject): Ok/Some continue, Err/None break
                        vs = set("Continue" if v in ("Ok", "Some", "Continue") else "Break" for v in vs)
                    good = [tg for n, tgs in atom[2].items() if n in vs for tg in tgs]
                    for n, tgs in atom[2].items():
                        if n not in vs:
                            for tg in tgs:
                                if tg not in good:
                                    rem.add((bi, tg))
            elif atom[0] == "int" and self.assumptions:
                v = assumed_int(self.assumptions, atom[1])
                if v is not None:
                    good = atom[2].get(str(v), atom[2]["otherwise"])
                    for k_, tgs in atom[2].items():
                        for tg in tgs:
                            if tg not in good:
                                rem.add((bi, tg))
            elif atom[0] == "bool":
                t = atom[1]
                alts = t[1] if t[0] == "phi" else (t,)
                alts = tuple(_known_bool(self._assumed(a)) for a in alts)
                if all(a[0] == "const" and a[1] == "bool" for a in alts):
                    vs = set(a[2] for a in alts)
                    good = [tg for v in vs for tg in atom[2][v]]
                    for v in (True, False):
                        if v not in vs:
                            for tg in atom[2][v]:
                                if tg not in good:
                                    rem.add((bi, tg))
        return rem - self.removed

    def settle(self, rounds=6):
        """apply determined_edges to a fixpoint; returns the settled context."""
        c = self
        for _ in range(rounds):
            more = c.determined_edges()
            if not more:
                break
            c = c.with_removed(more)
        return c

    # ---- P3: what does each switch test?
    def atoms(self):
        """list of (bb, atom) for each reachable switch.
        atom = ('bool', term, {True: [targets], False: [targets]})
             | ('variant', subject_term, {variant_name: [targets]}, adt)
             | ('int', term, {value: [targets], 'otherwise': [..]})"""
        if self._atoms is not None:
            return self._atoms
        out = []
        b = self.body
        for bi in sorted(self.T.reach):
            blk = b.blocks[bi]
            t = blk["term"]
            if t["k"] != "switch":
                continue
            idx = len(blk["stmts"])
            on = t["on"]
            term = self.T.operand(on, bi, idx)
            pl = on.get("c") or on.get("m")
            ty = pl["ty"] if pl else None
            # find the variants list if the switch operand is a discriminant read
            variants = None
            adt = None
            if term[0] == "discr" and pl is not None and not pl["p"]:
                for d in self.T.reaching(pl["l"], [], bi, idx):
                    if d[2] == "assign" and "discr" in d[4]:
                        variants = {v: n for v, n in d[4].get("variants", [])}
                        adt = d[4].get("adt")
            if term[0] == "discr" and variants:
                m = {}
                used = set()
                for v, tg in t["targets"]:
                    n = variants.get(v, "#" + v)
                    used.add(v)
                    m.setdefault(n, []).append(tg)
                rest = [n for v, n in variants.items() if v not in used]
                for n in rest:
                    m.setdefault(n, []).append(t["otherwise"])
                at_ = ("variant", term[1], m, adt)
                # `cond.then_some(x).ok_or(e)?` / `if let Some(_) = cond.then(..)`: a test of `cond` itself
                rt_ = result_test(at_)
                if rt_ is not None and rt_[0][0] == "call" and rt_[0][1].split("::")[-1] in ("then_some", "then") and "bool" in rt_[0][1] and rt_[0][2]:
                    c_ = rt_[0][2][0]
                    neg_ = False
                    while c_[0] == "un" and c_[1] == "Not":
                        c_, neg_ = c_[2], not neg_
                    at_ = ("bool", c_, {True: (rt_[2] if neg_ else rt_[1]), False: (rt_[1] if neg_ else rt_[2])})
                out.append((bi, at_))
            elif ty == "bool":
                neg = False
                while term[0] == "un" and term[1] == "Not":
                    term = term[2]
                    neg = not neg
                f_t = [tg for v, tg in t["targets"] if v == "0"]
                t_t = [t["otherwise"]]
                if neg:
                    f_t, t_t = t_t, f_t
                out.append((bi, ("bool", term, {True: t_t, False: f_t})))
            else:
                m = {}
                for v, tg in t["targets"]:
                    m.setdefault(v, []).append(tg)
                m["otherwise"] = [t["otherwise"]]
                out.append((bi, ("int", term, m)))
        self._atoms = out
        return out


LEN_CALLS = {"core::str::len", "std::string::String::len", "std::vec::Vec::len", "core::slice::len", "std::collections::VecDeque::len", "core::slice::<impl [T]>::len"}
EMPTY_CALLS = {"core::str::is_empty", "std::string::String::is_empty", "std::vec::Vec::is_empty", "core::slice::is_empty"}
_CMP = {
    "Lt": lambda a, b: a < b, "Le": lambda a, b: a <= b, "Gt": lambda a, b: a > b, "Ge": lambda a, b: a >= b, "Eq": lambda a, b: a == b, "Ne": lambda a, b: a != b,
    "std::cmp::PartialOrd::lt": lambda a, b: a < b, "std::cmp::PartialOrd::le": lambda a, b: a <= b,
    "std::cmp::PartialOrd::gt": lambda a, b: a > b, "std::cmp::PartialOrd::ge": lambda a, b: a >= b,
    "std::cmp::PartialEq::eq": lambda a, b: a == b, "std::cmp::PartialEq::ne": lambda a, b: a != b,
}


def len_of(t):
    """x if t denotes the length of x (str / String / Vec / slice, method or MIR metadata read)"""
    if t[0] == "call" and t[1] in LEN_CALLS and t[2]:
        return t[2][0]
    if t[0] == "un" and t[1] == "PtrMetadata":
        return t[2]
    if t[0] == "payload" and t[1][0] == "call" and t[1][1] == "std::option::Option::map" and len(t[1][2]) == 2:
        # opt.map(str::len) unwrapped: the length of the unwrapped opt
        f = t[1][2][1]
        if f[0] == "fn" and (f[1] in LEN_CALLS or f[1].endswith("::len")):
            return ("payload", t[1][2][0], t[2])
    return None


def literal_int(t):
    """value of an integer literal term (rules.common installs a folding version)"""
    if t[0] == "const" and t[1] == "int":
        return t[2]
    if t[0] == "cast":
        return literal_int(t[1])
    return None


INT_VALUE = [literal_int]


def cmp_operands(t):
    """(op, a, b) if t is an integer/ordering comparison"""
    if t[0] == "bin" and t[1] in _CMP:
        return t[1], t[2], t[3]
    if t[0] == "call" and t[1] in _CMP and len(t[2]) == 2:
        return t[1], t[2][0], t[2][1]
    return None


def assumed_int(assumptions, t):
    """the value of integer term t in the world: a literal, or fixed by an ('int', v) / ('len', v) assumption"""
    v = INT_VALUE[0](t)
    if v is not None:
        return v
    x = len_of(t)
    for pred, value in assumptions:
        if not isinstance(value, tuple):
            continue
        if value[0] == "int" and pred(t):
            return value[1]
        if value[0] == "len" and x is not None and pred(x):
            return value[1]
    return None


SOMENESS_PRESERVING = {"std::option::Option::map", "std::option::Option::as_ref", "std::option::Option::as_mut", "std::option::Option::cloned", "std::option::Option::copied", "std::option::Option::as_deref", "std::option::Option::inspect"}


def assumed_ok(assumptions, subj, _d=0):
    if subj[0] == "trybranch":
        subj = subj[1]
    if subj[0] == "agg" and subj[2] in ("Some", "Ok"):
        return True
    if subj[0] == "agg" and subj[2] in ("None", "Err") and subj[1].endswith(("option::Option", "result::Result")):
        return False
    for pred, value in assumptions:
        if isinstance(value, tuple) and value[0] == "ok" and pred(subj):
            return value[1]
    if subj[0] == "payload" and subj[2] == "Ok/Some" and _d < 4:
        # `opt.map(f).transpose()?` is an Option that is Some exactly when opt is
        inner = subj[1][1] if subj[1][0] == "trybranch" else subj[1]
        if inner[0] == "call" and inner[1] == "std::option::Option::transpose" and inner[2]:
            return assumed_ok(assumptions, inner[2][0], _d + 1)
    if subj[0] == "call" and subj[1].split("::")[-1] in ("first", "last", "split_first", "split_last", "first_mut", "last_mut") and "slice" in subj[1] and subj[2]:
        # xs.first() / xs.last() is Some exactly when xs is not empty
        for pred, value in assumptions:
            if isinstance(value, tuple) and value[0] == "len" and pred(subj[2][0]):
                return value[1] > 0
    if subj[0] == "call" and (subj[1] in SOMENESS_PRESERVING or subj[1] in OKNESS_PRESERVING) and subj[2] and _d < 4:
        # x.map(f) is Some exactly when x is
        return assumed_ok(assumptions, subj[2][0], _d + 1)
    return None


class Rem(set):
    """a set of pruned edges that remembers the world assumption it encodes"""
    assume = ()

    def __or__(self, other):
        r = Rem(set.__or__(self, other))
        r.assume = tuple(self.assume) + tuple(getattr(other, "assume", ()))
        return r

    def __ior__(self, other):
        set.__ior__(self, other)
        self.assume = tuple(self.assume) + tuple(getattr(other, "assume", ()))
        return self


def _known_bool(t):
    """boolean library facts about freshly built values (used only to prune infeasible edges):
    is_empty() of a vector that is `Vec::new()` / `vec![..]` on every reaching path."""
    if t[0] == "call" and t[1] in ("std::vec::Vec::is_empty", "core::slice::is_empty") and t[2]:
        v = t[2][0]
        alts = v[1] if v[0] == "phi" else (v,)
        vals = set()
        for x in alts:
            if x[0] == "call" and x[1] == "std::vec::Vec::new" and not x[2]:
                vals.add(True)
            elif x[0] == "call" and x[1] == "vec!":
                vals.add(len(x[2]) == 0)
            elif x[0] == "mut" and x[2] == "std::vec::Vec::push":
                vals.add(False)
            else:
                return t
        if len(vals) == 1:
            return ("const", "bool", vals.pop())
    # a length comparison (`let [first, ..] = v.as_slice() else ..` tests `len >= 1`) of a vector that is empty on
    # every reaching path, or has just been pushed to on every reaching path
    co = cmp_operands(t) if t[0] in ("bin", "call") else None
    if co is not None:
        for xi, ki, flip in ((1, 2, False), (2, 1, True)):
            x, k = len_of(co[xi]), INT_VALUE[0](co[ki])
            if x is None or k is None:
                continue
            alts = x[1] if x[0] == "phi" else (x,)
            lo = []
            for a in alts:
                if a[0] == "call" and a[1] == "std::vec::Vec::new" and not a[2]:
                    lo.append((0, 0))
                elif a[0] == "call" and a[1] == "vec!":
                    lo.append((len(a[2]), len(a[2])))
                elif a[0] == "mut" and a[2] == "std::vec::Vec::push":
                    lo.append((1, None))
                else:
                    return t
            res = set()
            for mn, mx in lo:
                for v in ([mn] if mx == mn else [mn, mn + 1, 1 << 20]):
                    a_, b_ = (k, v) if flip else (v, k)
                    res.add(bool(_CMP[co[0]](a_, b_)))
            if len(res) == 1:
                return ("const", "bool", res.pop())
    return t


OKNESS_PRESERVING = {"std::result::Result::map_err", "std::option::Option::ok_or", "std::option::Option::ok_or_else", "std::result::Result::ok", "std::result::Result::map", "std::option::Option::map", "std::result::Result::as_ref", "std::option::Option::as_ref", "std::option::Option::as_deref", "std::option::Option::cloned", "std::option::Option::copied", "std::result::Result::inspect_err"}


def okness_core(subj):
    """the value whose Ok/Some-ness decides the Ok/Some-ness of subj: `x.map_err(f)`, `x.ok_or(e)`,
    `x.map(f)`, `x.ok()` succeed exactly when x does"""
    for _ in range(6):
        if subj[0] == "trybranch":
            subj = subj[1]
        elif subj[0] == "call" and subj[1] in OKNESS_PRESERVING and subj[2]:
            subj = subj[2][0]
        else:
            break
    return subj


def result_test(atom):
    """if the atom tests whether a Result/Option-like subject is Ok/Some: (subject, ok_targets, err_targets)."""
    if atom[0] == "variant":
        subj = atom[1]
        if subj[0] == "trybranch":
            subj = subj[1]
        subj = okness_core(subj)
        okt, errt = [], []
        names = set(atom[2].keys())
        if not (names & (OK_VARIANTS | ERR_VARIANTS)):
            return None
        for n, tg in atom[2].items():
            if n in OK_VARIANTS:
                okt += tg
            else:
                errt += tg
        return subj, okt, errt
    if atom[0] == "bool":
        t = atom[1]
        if t[0] == "call" and t[1] in IS_TESTS and t[2]:
            pol = IS_TESTS[t[1]]
            subj = t[2][0]
            if subj[0] == "trybranch":
                subj = subj[1]
            return subj, atom[2][pol], atom[2][not pol]
    return None


def bool_test(atom):
    if atom[0] == "bool":
        return atom[1], atom[2][True], atom[2][False]
    return None


# ----------------------------------------------------------------------------- P2 exits


def exits(ctx):
    """success-capable and error exits of a Result-returning body.
    returns list of dict(bb, idx, kind in ok|err|delegate|other, term, callee)"""
    b = ctx.body
    out = []
    for bi in sorted(ctx.T.reach):
        blk = b.blocks[bi]
        for si, st in enumerate(blk["stmts"]):
            if st["k"] == "assign" and st["place"]["l"] == 0 and not st["place"]["p"]:
                rv = st["rv"]
                if "agg" in rv and rv["agg"] == "adt" and rv["adt"].endswith("result::Result"):
                    kind = "ok" if rv["variant"] == "Ok" else "err"
                elif "agg" in rv and rv["agg"] == "adt" and rv["adt"].endswith("option::Option"):
                    kind = "ok" if rv["variant"] == "Some" else "err"
                else:
                    kind = "other"
                out.append({"bb": bi, "idx": si, "kind": kind, "term": ctx.T.rvalue(rv, bi, si)})
        t = blk["term"]
        if t["k"] == "call" and t["dest"]["l"] == 0 and not t["dest"]["p"]:
            nm = call_name(t)
            if nm == "std::ops::FromResidual::from_residual":
                out.append({"bb": bi, "idx": len(blk["stmts"]), "kind": "err", "term": None})
            else:
                out.append(
                    {"bb": bi, "idx": len(blk["stmts"]), "kind": "delegate", "term": ctx.T.call_term(t, bi), "callee": t.get("rkey"), "call": t}
                )
    return out


def update_closure_ctx(prog, callterm, assumptions=()):
    """context of the closure of `ITEM.update(storage, [key,] closure)` with its parameter bound to
    the load of the same item / key (what cw-storage-plus passes in)"""
    from .mir import intern
    args = callterm[2]
    clo = args[-1]
    cb = prog.body(clo[1]) if clo[0] == "closure" else None
    if cb is None:
        return None
    head, rest = args[:2], args[2:-1]
    if callterm[1].startswith("cw_storage_plus::Item::"):
        stored = ("payload", ("call", "cw_storage_plus::Item::load", head), "Ok/Some")
    else:
        stored = ("payload", ("call", callterm[1].rsplit("::", 1)[0] + "::may_load", head + rest), "Ok/Some")
    caps = {n: v for _, n, v in clo[2]}
    return Ctx(cb, params={2: intern(stored)}, captures=caps, assumptions=assumptions)


def success_exits(ctx):
    """the exits of ctx that can succeed in its world: error exits are out, and so is a tail call
    `helper(..)` (delegate exit) to a local function that has no success exit in the same world."""
    out = []
    for e in exits(ctx):
        if e["kind"] == "err":
            continue
        if e["kind"] == "delegate" and ctx.assumptions and ctx.level < 3:
            cb = ctx.prog.body(e["callee"]) if e.get("callee") else None
            t = e["term"]
            if cb is not None and cb.kind == "fn" and cb.key != ctx.body.key and t[0] == "call" and (cb.j.get("ret_ty") or "").startswith(("std::result::Result", "core::result::Result", "Result", "std::option::Option", "core::option::Option", "Option")):
                cc = Ctx(cb, params={i + 1: a for i, a in enumerate(t[2])}, assumptions=ctx.assumptions)
                cc.level = ctx.level + 1
                if not success_exits(cc.settle()):
                    continue
            if cb is None and t[0] == "call" and ctx._assumed_ok(t) is False:
                # a std combinator as the tail expression (`opt.map(..).ok_or(err)`) whose value the world decides
                continue
            if cb is None and t[0] == "call" and t[1].startswith("cw_storage_plus::") and t[1].endswith("::update") and t[2] and t[2][-1][0] == "closure":
                # `ITEM.update(storage, closure)` as the tail expression: it succeeds only if the closure can
                uc = update_closure_ctx(ctx.prog, t, ctx.assumptions)
                if uc is not None:
                    uc.level = ctx.level + 1
                    if not success_exits(uc.settle()):
                        continue
        out.append(e)
    return out


# ----------------------------------------------------------------------------- P3/P4 guards


class Guard:
    """A guard specification.

    subject(term) -> True if `term` is the Result/Option value of a guard call whose Ok/Some
                     outcome means "passed" (e.g. the assert_admin call on ADMIN with info.sender).
    boolean(term) -> True / False (the truth value that means "passed") or None.
    variant(subject_term, names) -> set of passing variant names or None (for enum tests like status).
    """

    def __init__(self, name, subject=None, boolean=None, variant=None):
        self.name = name
        self.subject = subject
        self.boolean = boolean
        self.variant = variant


def pass_edges(ctx, guard, prog, depth=3, found=None):
    """edges (bb, target) on which execution continues only if `guard` passed.
    `found` collects the matched instances for evidence."""
    edges = set()
    for bi, atom in ctx.atoms():
        hit = None
        rt = result_test(atom)
        if rt is not None:
            subj, okt, errt = rt
            if guard.subject and guard.subject(subj):
                hit = (okt, errt, "direct", subj)
            elif depth > 0 and subj[0] == "call":
                # helper whose every success exit is itself behind the guard
                cb = _callee_body(prog, subj)
                if cb is not None and cb.key != ctx.body.key:
                    params = {i + 1: a for i, a in enumerate(subj[2])}
                    cctx = ctx.sub(cb, params=params)
                    sub_found = []
                    if guarded(cctx, guard, prog, depth - 1, sub_found)[0]:
                        if sub_found:
                            hit = (okt, errt, "helper:" + cb.key, subj)
                        elif (guard.boolean or guard.subject) and success_exits(cctx.settle()):
                            # the helper computes its answer from the test as a VALUE (`flag.then_some(E).map_or(Ok(()), Err)`,
                            # no branch of its own): it can succeed, and not in the world where the guard fails
                            hit = (okt, errt, "helper-world:" + cb.key, subj)
        if hit is None and guard.boolean:
            btst = bool_test(atom)
            if btst is not None:
                term, tt, ft = btst
                pol = guard.boolean(term)
                if pol is not None:
                    hit = ((tt if pol else ft), (ft if pol else tt), "bool", term)
        if hit is None and depth > 0 and (guard.boolean or guard.variant):
            # a predicate method that computes the test (`if !batch.is_settled()` with `matches!(self.status, ..)`
            # inside): with the guard's pass edges cut inside the helper its value is a constant; the other
            # value is returned only where the guard passed
            btst = bool_test(atom)
            if btst is not None and btst[0][0] == "call":
                term, tt, ft = btst
                cb = _callee_body(prog, term)
                if cb is not None and cb.key != ctx.body.key and (cb.j.get("ret_ty") or "") == "bool" and _is_pure_small(prog, cb):
                    cctx = ctx.sub(cb, params={i + 1: a for i, a in enumerate(term[2])})
                    sub_found = []
                    sub_edges = pass_edges(cctx, guard, prog, depth - 1, sub_found)
                    if sub_edges and sub_found:
                        rt_ = fail_world(cctx.with_removed(sub_edges), guard).settle().T.return_term()
                        if rt_[0] == "const" and rt_[1] == "bool":
                            pol = not rt_[2]
                            hit = ((tt if pol else ft), (ft if pol else tt), "predicate:" + cb.key, term)
        if hit is None and guard.variant and atom[0] == "variant":
            names = guard.variant(atom[1], set(atom[2].keys()))
            if names is not None:
                okt = [tg for n, tgs in atom[2].items() if n in names for tg in tgs]
                errt = [tg for n, tgs in atom[2].items() if n not in names for tg in tgs]
                hit = (okt, errt, "variant", atom[1])
        if hit is None:
            continue
        okt, errt, how, term = hit
        for tg in okt:
            if tg in errt:
                continue  # shared target: cannot cut (fail closed)
            edges.add((bi, tg))
        if found is not None:
            found.append({"fn": ctx.body.key, "bb": bi, "how": how, "loc": ctx.body.loc(bi), "test": fmt(term)[:200]})
    return edges


def _callee_body(prog, callterm):
    # callterm = ('call', name, args, resolved)
    # local bodies are keyed by rkey; the term keeps only the generic-free callee path, which for
    # local free functions and inherent methods equals the body key.
    if len(callterm) > 3 and callterm[3] and callterm[3][0] == "meta" and callterm[3][2]:
        b = prog.body(callterm[3][2])
        if b is not None:
            return b
    return prog.body(callterm[1])


def fail_world(ctx, guard):
    """ctx with the assumption that `guard` fails wherever it is evaluated — including inside local
    helpers that compute a boolean / Option from it (`if let Some(t) = state.blocked_until(now)`)."""
    extra = ()
    if guard.subject:
        extra += ((guard.subject, ("ok", False)),)
    if guard.boolean:
        def failing(t, g=guard.boolean):
            pol = g(t)
            return None if pol is None else (not pol)
        extra += ((None, failing),)
    if not extra:
        return ctx
    if any(a[1] is e[1] or (a[0] is not None and a[0] is e[0] and a[1] == e[1]) for a in ctx.assumptions for e in extra):
        return ctx
    c = Ctx(ctx.body, ctx.removed, ctx.T.params, ctx.T.captures, ctx.assumptions + extra)
    c.level = ctx.level
    return c


def guarded(ctx, guard, prog, depth=3, found=None):
    """P4: is every success-capable exit of ctx.body unreachable once the guard's pass edges are cut?
    returns (bool, offending_exit_or_None)."""
    edges = pass_edges(ctx, guard, prog, depth, found)
    cut = fail_world(ctx.with_removed(edges), guard).settle()
    reach = cut.T.reach
    for e in exits(ctx):
        if e["bb"] not in reach:
            continue
        if e["kind"] == "err":
            continue
        if e["kind"] == "delegate" and e.get("term") is not None and e["term"][0] == "call" and (prog.body(e["callee"]) if e.get("callee") else None) is None and cut._assumed_ok(e["term"]) is False:
            # a std combinator as the tail expression (`load(..).map_err(..).and_then(|p| test(p))`) that cannot be Ok
            # in the world where the guard fails
            continue
        if e["kind"] == "delegate" and depth > 0:
            cb = prog.body(e["callee"]) if e.get("callee") else None
            if cb is not None and cb.key != ctx.body.key:
                t = e["term"]
                params = {i + 1: a for i, a in enumerate(t[2])} if t[0] == "call" else None
                ok, off = guarded(ctx.sub(cb, params=params), guard, prog, depth - 1, found)
                if ok:
                    continue
                return False, off
        return False, {"fn": ctx.body.key, "bb": e["bb"], "loc": ctx.body.loc(e["bb"], e["idx"]), "kind": e["kind"]}
    return True, None


def has_success_exit(ctx, prog, depth=3):
    """is any success-capable exit reachable in this world?"""
    for e in exits(ctx):
        if e["kind"] == "err":
            continue
        return True
    return False


# ----------------------------------------------------------------------------- P5 worlds


def world_edges(ctx, subject_pred, want_some):
    """edges contradicting the assumption that every Option/Result term matching subject_pred
    is Some/Ok (want_some=True) or None/Err (False)."""
    rem = set()
    n = 0
    for bi, atom in ctx.atoms():
        rt = result_test(atom)
        if rt is None:
            continue
        subj, okt, errt = rt
        if not subject_pred(subj):
            continue
        n += 1
        bad = errt if want_some else okt
        good = okt if want_some else errt
        for tg in bad:
            if tg not in good:
                rem.add((bi, tg))
    rem = Rem(rem)
    rem.assume = ((subject_pred, ("ok", bool(want_some))),)
    return rem, n or _deep_tests(ctx, lambda atom: (result_test(atom) or (None,))[0] is not None and subject_pred(result_test(atom)[0]))


def variant_world_edges(ctx, subject_pred, variant):
    rem = set()
    n = 0
    for bi, atom in ctx.atoms():
        if atom[0] != "variant" or not subject_pred(atom[1]):
            continue
        n += 1
        good = atom[2].get(variant, [])
        for nme, tgs in atom[2].items():
            if nme == variant:
                continue
            for tg in tgs:
                if tg not in good:
                    rem.add((bi, tg))
    rem = Rem(rem)
    rem.assume = ((subject_pred, ("variant", variant)),)
    return rem, n or _deep_tests(ctx, lambda atom: atom[0] == "variant" and subject_pred(atom[1]))


def bool_world_edges(ctx, term_pred, value):
    rem = set()
    n = 0
    for bi, atom in ctx.atoms():
        if atom[0] != "bool" or not term_pred(atom[1]):
            continue
        n += 1
        good = atom[2][value]
        for tg in atom[2][not value]:
            if tg not in good:
                rem.add((bi, tg))
    rem = Rem(rem)
    rem.assume = ((term_pred, bool(value)),)
    return rem, n or _deep_tests(ctx, lambda atom: atom[0] == "bool" and term_pred(atom[1]), value_pred=term_pred)


def _deep_tests(ctx, atom_pred, depth=2, value_pred=None):
    """number of switches accepted by atom_pred in the local callees of ctx (parameters bound),
    so that a test moved into a helper still counts as a test of the handler.  With value_pred, a
    predicate helper that RETURNS the test (`fn has_stake(&self) -> bool { !self.total.is_zero() }`,
    no switch of its own) counts too."""
    n = 0
    for c, path in inline_walk(ctx.prog, ctx, depth):
        if not path:
            continue
        for bi, atom in c.atoms():
            if atom_pred(atom):
                n += 1
        if value_pred is not None and (c.body.j.get("ret_ty") or "") == "bool":
            if any(value_pred(s_) for s_ in subterms(c.T.return_term())):
                n += 1
    return n


# ----------------------------------------------------------------------------- calls / call graph


def call_sites(ctx, name_pred):
    """(bb, call terminator, arg terms) for calls whose generic-free callee path satisfies name_pred."""
    b = ctx.body
    for bi in sorted(ctx.T.reach):
        t = b.blocks[bi]["term"]
        if t["k"] != "call":
            continue
        nm = call_name(t)
        if nm is not None and name_pred(nm):
            idx = len(b.blocks[bi]["stmts"])
            yield bi, t, tuple(ctx.T.operand(a, bi, idx) for a in t["args"])


def local_callees(prog, body):
    """keys of bodies directly called (resolved) or created as closures / referenced as fn items."""
    out = []
    for bi, blk in enumerate(body.blocks):
        if blk["cleanup"]:
            continue
        t = blk["term"]
        if t["k"] == "call":
            rk = t.get("rkey")
            if rk and rk in prog.bodies:
                out.append(rk)
            for a in t["args"]:
                k = a.get("k")
                if k and "fn" in k and k["fn"] in prog.bodies:
                    out.append(k["fn"])
        for st in blk["stmts"]:
            rv = st.get("rv") or {}
            if rv.get("agg") == "closure" and rv["closure"] in prog.bodies:
                out.append(rv["closure"])
            u = rv.get("use") or {}
            k = u.get("k") if isinstance(u, dict) else None
            if k and "fn" in k and k["fn"] in prog.bodies:
                out.append(k["fn"])
    return out


def reachable_bodies(prog, roots):
    seen = []
    st = list(roots)
    while st:
        k = st.pop()
        if k in seen or k not in prog.bodies:
            continue
        seen.append(k)
        st.extend(local_callees(prog, prog.bodies[k]))
    return seen


# ----------------------------------------------------------------------------- P13 storage effects

STORE_WRITE = {"save", "update", "remove", "set", "replace"}
STORE_READ = {"load", "may_load", "range", "keys", "prefix", "has", "get", "is_admin", "assert_admin", "idx", "range_raw", "query_admin", "item", "sub_prefix", "first", "last"}
STORE_TYPES = ("cw_storage_plus::Item::", "cw_storage_plus::Map::", "cw_storage_plus::IndexedMap::", "cw_controllers::Admin::", "cw_storage_plus::Prefix::", "cw_storage_plus::UniqueIndex::", "cw_storage_plus::MultiIndex::")


def storage_item_of(term):
    """name of the storage container a receiver term denotes: const item path or constructor fn."""
    for s in subterms(term):
        if s[0] == "item":
            return s[1]
        if s[0] == "call" and s[1].endswith("::unstake_requests"):
            return s[1]
    return None


def storage_ops(ctx):
    """every cw-storage-plus / Admin call in the body: dict(bb, op, kind r|w, item, args, loc)."""
    out = []
    for bi, t, args in call_sites(ctx, lambda n: n.startswith(STORE_TYPES)):
        nm = call_name(t)
        op = nm.split("::")[-1]
        ty = nm.split("::")[-2]
        if op in ("new",):
            continue
        kind = "w" if op in STORE_WRITE else "r"
        item = storage_item_of(args[0]) if args else None
        out.append({"bb": bi, "op": op, "type": ty, "kind": kind, "item": item, "args": args, "loc": ctx.body.loc(bi), "fn": ctx.body.key})
    return out


def transitive_storage_writes(prog, root_keys, stop=()):
    """all storage write ops in bodies reachable from roots (call graph incl. closures)."""
    out = []
    for k in reachable_bodies(prog, root_keys):
        if k in stop:
            continue
        b = prog.bodies[k]
        if b.kind not in ("fn", "closure"):
            continue
        for op in storage_ops(Ctx(b)):
            if op["kind"] == "w":
                out.append(op)
    return out


# ----------------------------------------------------------------------------- P1 dispatch


def dispatch_table(prog, key, enum_suffix):
    """variant -> dict(arm_blocks entry, handler key, call bb, call term) for an entry point that
    matches on its message parameter."""
    b = prog.body(key)
    if b is None:
        return None
    ctx = Ctx(b)
    table = {}
    for bi, atom in ctx.atoms():
        if atom[0] != "variant":
            continue
        adt = atom[3] or ""
        if not adt.endswith(enum_suffix):
            continue
        for vname, tgs in atom[2].items():
            for tg in tgs:
                # first call with dest _0 reachable from the arm before any other switch on the enum
                h = _arm_handler(ctx, tg)
                table[vname] = {"entry": tg, "switch": bi, "handler": h}
    return ctx, table


def _arm_handler(ctx, start):
    b = ctx.body
    seen = set()
    st = [start]
    found = []
    while st:
        x = st.pop()
        if x in seen:
            continue
        seen.add(x)
        t = b.blocks[x]["term"]
        if t["k"] == "call" and t["dest"]["l"] == 0 and not t["dest"]["p"]:
            nm = call_name(t)
            if nm != "std::ops::FromResidual::from_residual":
                found.append((x, t))
                continue
        if t["k"] == "return":
            continue
        for s in b.succs()[x]:
            st.append(s)
    return found


# ----------------------------------------------------------------------------- inlining walk (P12)


def inline_walk(prog, ctx, depth=3, _path=()):
    """yield (ctx', path) for ctx and, recursively, every local callee / closure it creates, with
    parameters and captures bound to the caller's terms, so that all terms are expressed in the
    vocabulary of the root body (parameters of the root, storage loads, constants)."""
    yield ctx, _path
    if depth <= 0:
        return
    b = ctx.body
    for bi in sorted(ctx.T.reach):
        blk = b.blocks[bi]
        for si, st in enumerate(blk["stmts"]):
            rv = st.get("rv") or {}
            if rv.get("agg") == "closure":
                cb = prog.body(rv["closure"])
                if cb is None:
                    continue
                ct = ctx.T.rvalue(rv, bi, si)
                caps = {n: v for _, n, v in ct[2]}
                if ctx.assumptions and _closure_dead(ctx, ct):
                    continue  # `opt.map(|x| ..)` in the world where opt is None: the closure does not run
                sub = ctx.sub(cb, params=_closure_elem_params(ctx, ct), captures=caps)
                yield from inline_walk(prog, sub, depth - 1, _path + ((b.key, bi, "closure"),))
        t = blk["term"]
        if t["k"] != "call":
            continue
        rk = t.get("rkey")
        if not rk or rk == b.key or rk not in prog.bodies:
            continue
        cb = prog.bodies[rk]
        if cb.kind != "fn":
            continue
        if any(p[0] == rk for p in _path):
            continue
        idx = len(blk["stmts"])
        params = {i + 1: _ctor_norm(prog, ctx.T.operand(a, bi, idx), 0, ctx.assumptions) for i, a in enumerate(t["args"])}
        sub = ctx.sub(cb, params=params)
        yield from inline_walk(prog, sub, depth - 1, _path + ((b.key, bi, "call"),))


_RUNS_ON_SOME = {"map": 1, "and_then": 1, "filter": 1, "is_some_and": 1, "is_ok_and": 1, "inspect": 1, "map_or": 2, "map_or_else": 2, "is_none_or": 1, "take_if": 1}
_RUNS_ON_NONE = {"or_else": 1, "unwrap_or_else": 1, "ok_or_else": 1, "map_err": 1, "inspect_err": 1, "map_or_else": 1, "get_or_insert_with": 1}


def _closure_dead(ctx, cterm):
    """is the closure an argument of an Option / Result combinator that does not call it in this world?"""
    for bi, t, args in call_sites(ctx, lambda n: n.startswith(("std::option::Option::", "std::result::Result::"))):
        m_ = (call_name(t) or "").split("::")[-1]
        for table, dead_when in ((_RUNS_ON_SOME, False), (_RUNS_ON_NONE, True)):
            i_ = table.get(m_)
            if i_ is not None and len(args) > i_ and args[i_][0] == "closure" and args[i_][1] == cterm[1]:
                a_ = ctx._assumed_ok(args[0])
                if a_ is dead_when:
                    return True
    return False


ELEM_CLOSURE_METHODS = {"for_each", "try_for_each", "map", "filter", "any", "all", "find", "position", "filter_map", "flat_map", "inspect", "take_while", "skip_while", "find_map"}


def _closure_elem_params(ctx, cterm):
    """if the closure is handed to an iterator method whose closure receives the elements
    (for_each, try_for_each, map, filter, any, ...): bind its parameter to `next(<receiver>)?`,
    the same term a `for x in receiver` loop reads — loop form and closure form then look alike."""
    for bi, t, args in call_sites(ctx, lambda n: "Iterator::" in n and n.split("::")[-1] in ELEM_CLOSURE_METHODS):
        if len(args) == 2 and args[1][0] == "closure" and args[1][1] == cterm[1]:
            if args[0][0] == "call" and args[0][1] in ("std::option::Option::iter", "std::option::Option::iter_mut") and args[0][2]:
                # an Option used as a zero-or-one element collection: the element is its payload
                return {2: ("payload", args[0][2][0], "Ok/Some")}
            return {2: ("payload", ("call", "std::iter::Iterator::next", (args[0],)), "Ok/Some")}
    # Option / Result combinators: the closure receives the Some / Ok payload of the receiver
    for bi, t, args in call_sites(ctx, lambda n: n in ("std::option::Option::map", "std::option::Option::and_then", "std::option::Option::filter", "std::option::Option::is_some_and", "std::result::Result::map", "std::result::Result::and_then")):
        if len(args) == 2 and args[1][0] == "closure" and args[1][1] == cterm[1]:
            return {2: ("payload", args[0], "Ok/Some")}
    # (also `opt.map_or(default, |x| ..)`, `opt.is_none_or(|x| ..)`, `res.is_ok_and(|x| ..)`)
    for bi, t, args in call_sites(ctx, lambda n: n in ("std::option::Option::map_or", "std::result::Result::map_or", "std::option::Option::is_none_or", "std::result::Result::is_ok_and", "std::option::Option::inspect")):
        if len(args) in (2, 3) and args[-1][0] == "closure" and args[-1][1] == cterm[1]:
            return {2: ("payload", args[0], "Ok/Some")}
    return None


def _ctor_norm(prog, t, _d=0, assumptions=()):
    """an argument that is the result of local constructor / builder calls
    (`Transfer::new(to, coin).with_reply_id(id)`) is passed on as the struct value they build, so
    that the callee's reads of its fields resolve to the caller's terms.  Only calls that return a
    freshly built struct of the workspace are looked through; every other call stays as written."""
    from .mir import intern, field_of
    if _d > 3:
        return t
    if t[0] == "tuple":
        el = tuple(_ctor_norm(prog, a, _d + 1, assumptions) for a in t[1])
        return intern(("tuple", el)) if el != t[1] else t
    if t[0] == "field":
        base = _ctor_norm(prog, t[1], _d + 1, assumptions)
        return intern(field_of(base, t[2])) if base is not t[1] and base != t[1] else t
    if t[0] != "call":
        return t
    cb = _callee_body(prog, t)
    if cb is None or not _is_pure_small(prog, cb):
        return t
    args = tuple(_ctor_norm(prog, a, _d + 1, assumptions) for a in t[2])
    c = Ctx(cb, params={i + 1: a for i, a in enumerate(args)}, assumptions=assumptions).settle()
    rt = c.T.return_term()
    if contains(rt, lambda s_: s_[0] in ("cycle", "undef")) and not any(contains(a, lambda s_: s_[0] in ("cycle", "undef")) for a in args):
        return t
    rt = resolve_terms(prog, rt, 0)
    alts = rt[1] if rt[0] == "phi" else (rt,)
    if all((a[0] == "agg" and a[1].split("::")[0] in prog.crates and a[1].split("::")[-1] not in ("Result", "Option")) or a[0] == "tuple" for a in alts):
        return intern(rt)
    return t


def storage_ops_deep(prog, ctx, depth=3, raw=False):
    """storage ops of ctx and of everything it calls (parameters bound).  Unless raw:
       * `ITEM.update(storage, [key,] closure)` is presented as the equivalent
         `ITEM.save(storage, [key,] closure(ITEM.load(storage, [key])?)?)` (op 'save', via='update'),
         so that rules read one form of read-modify-write."""
    out = []
    for c, path in inline_walk(prog, ctx, depth):
        for op in storage_ops(c):
            op = dict(op)
            op["path"] = path
            # block in the ROOT body through which this op is reached (for dominance queries)
            op["root_bb"] = path[0][1] if path else op["bb"]
            op["assumptions"] = c.assumptions
            if not raw:
                _normalise_op(prog, op)
            out.append(op)
    return out


def _normalise_op(prog, op):
    """adds op['value'] (the value written, for save and update alike; for update the closure's Ok
    result with its parameter bound to the load of the same item/key), op['key'] and op['wop']
    ('save' for save/update, else the op).  op/args stay as written."""
    from .mir import intern
    # a key (or value) produced by a local constructor helper — `request_key(batch, user)` returning
    # the tuple — is the tuple / struct it builds
    op["args"] = tuple(op["args"][:2]) + tuple(_ctor_norm(prog, a) for a in op["args"][2:])
    args = op["args"]
    op["wop"] = op["op"]
    if op["kind"] != "w" or len(args) <= 2:
        return
    head, rest = args[:2], args[2:]
    if op["op"] == "save":
        op["value"] = rest[-1]
        op["key"] = rest[0] if len(rest) > 1 else None
    elif op["op"] == "update":
        op["key"] = rest[0] if len(rest) > 1 else None
        clo = rest[-1]
        cb = prog.body(clo[1]) if clo[0] == "closure" else None
        if cb is not None:
            if op["type"] == "Item":
                stored = ("payload", ("call", "cw_storage_plus::Item::load", head), "Ok/Some")
            else:
                stored = ("payload", ("call", "cw_storage_plus::%s::may_load" % op["type"], head + rest[:-1]), "Ok/Some")
            caps = {n: v for _, n, v in clo[2]}
            cc = Ctx(cb, params={2: intern(stored)}, captures=caps, assumptions=op.get("assumptions", ())).settle()
            op["value"] = ok_payload(cc.T.return_term())
            op["stored"] = intern(stored)
            op["wop"] = "save"
    elif op["op"] == "remove":
        op["key"] = rest[0] if rest else None
    elif op["op"] == "replace" and len(rest) == 3:
        # IndexedMap::replace(storage, key, new, old): the low-level write behind save / remove.  It is
        # the same as save(key, new) / remove(key) exactly when `old` is what is stored under `key`,
        # i.e. the result of may_load / load of the same container under the same key.
        key, new, old = rest
        op["key"] = key
        o = old
        while o[0] in ("payload", "trybranch"):
            o = o[1]
        same_rec = o[0] == "call" and o[1].startswith("cw_storage_plus::") and o[1].split("::")[-1] in ("may_load", "load") and len(o[2]) >= 3 and norm(o[2][0]) == norm(head[0]) and norm(o[2][2]) == norm(key)
        if same_rec:
            alts = new[1] if new[0] == "phi" else (new,)
            if all(a[0] == "agg" and a[2] == "Some" for a in alts):
                op["wop"] = "save"
                op["value"] = ok_payload(new)
            elif all(a[0] == "agg" and a[2] == "None" for a in alts):
                op["wop"] = "remove"


def forms(prog, t, maxdepth=3, assumptions=()):
    """equivalent spellings of a value term: as written, then with local pure helpers /
    constructors inlined one more level each time.  A rule that recognises a value by shape
    accepts it if ANY form matches (each form denotes the same value)."""
    seen = []
    for d in range(-1, maxdepth + 1):
        f = t if d < 0 else resolve_terms(prog, t, d, None, assumptions)
        if f not in seen:
            seen.append(f)
            yield f


def match_any(prog, t, pred, maxdepth=3, assumptions=()):
    """first truthy pred(form) over forms(t), else the falsy result for the raw term."""
    first = None
    for i, f in enumerate(forms(prog, t, maxdepth, assumptions)):
        r = pred(f)
        if i == 0:
            first = r
        if r:
            return r
    return first


def aggregates(ctx, adt_pred):
    """all ADT aggregate constructions in the body: (bb, idx, term)."""
    b = ctx.body
    for bi in sorted(ctx.T.reach):
        for si, st in enumerate(b.blocks[bi]["stmts"]):
            rv = st.get("rv") or {}
            if rv.get("agg") == "adt" and adt_pred(rv["adt"], rv["variant"]):
                yield bi, si, ctx.T.rvalue(rv, bi, si)


def aggregates_deep(prog, ctx, adt_pred, depth=3):
    for c, path in inline_walk(prog, ctx, depth):
        for bi, si, t in aggregates(c, adt_pred):
            yield c, path, bi, si, t


def must_pass(ctx, block, targets=None):
    """is `block` on every path from entry to every reachable success exit?  (P8, block-level;
    evaluated after pruning the edges that become infeasible once the block is skipped)"""
    if block == 0:
        return True
    rem = set((p, block) for p in ctx.body.preds()[block])
    c2 = ctx.with_removed(rem).settle()
    succ_exits = [e["bb"] for e in exits(c2) if e["kind"] != "err"]
    if targets is not None:
        succ_exits = [t for t in targets if t in c2.T.reach]
    return not succ_exits


# ----------------------------------------------------------------------------- term-level inlining of small local functions (P12)


def _is_pure_small(prog, body):
    if body.kind != "fn" or len(body.blocks) > 400:
        return False
    if (body.j.get("ret_ty") or "").startswith(("cw_storage_plus::", "&cw_storage_plus::", "cw_controllers::", "&cw_controllers::")):
        return False  # storage-container constructors are identities of the container, not values
    c_ = body.__dict__.get("_pure_small")
    if c_ is not None:
        return c_
    writes, reads = [], []
    for bi, t in body.calls():
        nm = call_name(t) or ""
        if nm.startswith(STORE_TYPES):
            if nm.split("::")[-1] in STORE_WRITE:
                writes.append(bi)
            else:
                reads.append(bi)
    # the VALUE a helper returns is what its reads saw; a helper that also writes (`take_x(storage, id)` =
    # load + remove + return the loaded record) still has that value as long as none of its reads can run
    # after one of its writes (a read after a write would see the new state, which the term does not show)
    ok = True
    for w in writes:
        after = set()
        for s_ in body.succs()[w]:
            after |= body.reachable(start=s_)
        if after & (set(reads) | set(writes)):
            ok = False
            break
    body.__dict__["_pure_small"] = ok
    return ok


def _closure_on(clo, arg):
    """return term of a closure (found in any loaded program) applied to one argument"""
    from . import mir as _m
    for pr in _m.PROGRAMS:
        cb = pr.bodies.get(clo[1])
        if cb is not None:
            caps = {n: v for _, n, v in clo[2]}
            rt = Terms(cb, captures=caps, params={2: arg}).return_term()
            if contains(rt, lambda s_: s_[0] in ("cycle", "undef")):
                return None
            return rt
    return None


def _ctor_of(f_):
    """(enum path, variant) when the function item f_ is a tuple-variant constructor (Some, Ok, Err, a local enum's)"""
    from . import mir as _m
    par_, _, var_ = f_[1].rpartition("::")
    if par_.startswith(("std::", "core::")) and var_ == "Some":  # (also the prelude path std::prelude::v1::Some)
        return ("std::option::Option", "Some")
    if par_.startswith(("std::", "core::")) and var_ in ("Ok", "Err"):
        return ("std::result::Result", var_)
    for pr in _m.PROGRAMS:
        adt_ = pr.adts.get(par_)
        if adt_ is not None and any(v_.get("name") == var_ for v_ in adt_.get("variants", [])):
            return (par_, var_)
    return None


def _map_or_alts(x):
    """the two values `opt.map_or(D, f)` can take, when f is a closure or an enum-variant constructor"""
    from . import mir as _m
    opt, d_, f_ = x[2]
    if f_[0] == "closure":
        r_ = _closure_on(f_, ("payload", opt, "Ok/Some"))
        return [d_, r_] if r_ is not None else None
    if f_[0] == "fn":
        par_, _, var_ = f_[1].rpartition("::")
        for pr in _m.PROGRAMS:
            adt_ = pr.adts.get(par_)
            if adt_ is not None and any(v_.get("name") == var_ for v_ in adt_.get("variants", [])):
                return [d_, ("agg", par_, var_, (("fld", "0", ("payload", opt, "Ok/Some")),))]
    return None


def ok_payload(t, tag="Ok/Some"):
    """the Ok / Some payload of a Result / Option valued term: looks through `?`, drops the
    alternatives that are certainly Err / None (they do not reach the use of the payload)."""
    from .mir import intern
    if t[0] == "trybranch":
        t = t[1]
    alts = []

    def flat(x):
        if x[0] == "trybranch":
            x = x[1]
        if x[0] == "phi":
            for y in x[1]:
                flat(y)
        elif x[0] == "call" and x[1] == "std::option::Option::map_or" and len(x[2]) == 3 and _map_or_alts(x) is not None:
            # opt.map_or(D, f): D or f(payload of opt)
            for y in _map_or_alts(x):
                flat(y)
        elif x not in alts:
            alts.append(x)

    flat(t)
    out = []
    if tag == "Ok/Some":
        # combinators whose Ok/Some payload is determined by their receiver's payload
        alts2 = []
        for a in alts:
            if a[0] == "call" and a[1] == "std::result::Result::or_else" and len(a[2]) == 2 and a[2][1][0] == "closure":
                # x.or_else(|e| Err(f(e))) keeps the payload of x; a closure that can answer Ok(..) adds its own
                r_ = _closure_on(a[2][1], ("payload", a[2][0], "Err"))
                alts_r = (r_[1] if r_[0] == "phi" else (r_,)) if r_ is not None else ()
                if alts_r and all(x_[0] == "agg" and x_[2] == "Err" for x_ in alts_r):
                    alts2.append(("__payload_of__", a[2][0]))
                else:
                    alts2.append(a)
            elif a[0] == "call" and a[1] in ("std::option::Option::ok_or", "std::option::Option::ok_or_else", "std::result::Result::map_err", "std::result::Result::ok", "std::option::Option::filter", "std::option::Option::take") and a[2]:
                alts2.append(("__payload_of__", a[2][0]))
            elif a[0] == "call" and a[1].split("::")[-1] == "then_some" and "bool" in a[1] and len(a[2]) == 2:
                # cond.then_some(v): where it is Some, its payload is v
                alts2.append(("__value__", a[2][1]))
            elif a[0] == "call" and a[1].split("::")[-1] == "then" and "bool" in a[1] and len(a[2]) == 2 and a[2][1][0] == "closure" and _closure_on(a[2][1], ("none",)) is not None:
                # cond.then(|| v): where it is Some, its payload is what the closure returns
                alts2.append(("__value__", _closure_on(a[2][1], ("none",))))
            elif a[0] == "call" and a[1] == "std::option::Option::transpose" and a[2] and a[2][0][0] == "agg" and a[2][0][2] in ("Some", "None"):
                # Some(r).transpose()? == Some(r?) ; None.transpose()? == None
                x_ = a[2][0]
                if x_[2] == "None":
                    alts2.append(("__value__", ("agg", "std::option::Option", "None", ())))
                else:
                    alts2.append(("__value__", ("agg", "std::option::Option", "Some", (("fld", "0", ok_payload(x_[3][0][2])),))))
            elif a[0] == "call" and a[1] in ("std::option::Option::map", "std::result::Result::map") and len(a[2]) == 2 and a[2][1][0] == "closure":
                r = _closure_on(a[2][1], ok_payload(a[2][0]))
                alts2.append(("__value__", r) if r is not None else a)
            elif a[0] == "call" and a[1] in ("std::option::Option::map", "std::result::Result::map") and len(a[2]) == 2 and a[2][1][0] == "fn" and _ctor_of(a[2][1]) is not None:
                # x.map(Some) / x.map(Wrapper::Variant): the constructor applied to the payload of x
                par_, var_ = _ctor_of(a[2][1])
                alts2.append(("__value__", ("agg", par_, var_, (("fld", "0", ok_payload(a[2][0])),))))
            elif a[0] == "call" and a[1] in ("std::option::Option::map", "std::result::Result::map") and len(a[2]) == 2 and a[2][1][0] == "fn":
                # x.map(path::to::function): that function applied to the payload of x
                f_ = a[2][1]
                from .mir import strip_generics as _sg
                alts2.append(("__value__", ("call", _sg(f_[1]), (ok_payload(a[2][0]),), ("meta", f_[2] if len(f_) > 2 and f_[2] else f_[1], f_[1]))))
            else:
                alts2.append(a)
        if any(x[0] in ("__payload_of__", "__value__") for x in alts2):
            vals = []
            for x in alts2:
                if x[0] == "__payload_of__":
                    vals.append(ok_payload(x[1]))
                elif x[0] == "__value__":
                    vals.append(x[1])
                elif (x[0] == "agg" and x[2] in ("Err", "None") and x[1].endswith(("result::Result", "option::Option"))) or (x[0] == "call" and x[1] == "std::ops::FromResidual::from_residual"):
                    continue  # certainly no payload: does not reach the use
                else:
                    vals.append(ok_payload(x))
            if not vals:
                return intern(("payload", t, tag))
            return intern(Terms._phi(vals))
    if tag != "Ok/Some":
        # payload of a user enum variant: (x as Variant).0
        for a in alts:
            if a[0] == "agg":
                if a[2] == tag and len(a[3]) >= 1:
                    v = a[3][0][2]
                    if v not in out:
                        out.append(v)
                continue
            v = ("payload", a, tag)
            if v not in out:
                out.append(v)
        if not out:
            return intern(("payload", t, tag))
        return intern(Terms._phi(out))
    for a in alts:
        if a[0] == "agg" and a[2] in ("Ok", "Some") and len(a[3]) == 1:
            v = a[3][0][2]
        elif a[0] == "agg" and a[2] in ("Err", "None") and (a[1].endswith("result::Result") or a[1].endswith("option::Option")):
            continue
        elif a[0] == "call" and a[1] == "std::ops::FromResidual::from_residual":
            continue
        else:
            v = ("payload", a, tag)
        if v not in out:
            out.append(v)
    if not out:
        return intern(("payload", t, tag))
    return intern(Terms._phi(out))


def resolve_terms(prog, t, depth=3, _memo=None, assumptions=()):
    """rewrite inside term t:
       ('call', <local pure fn>, args)        -> its return term with parameters bound (world-settled)
       ('mut', prev, <local fn(.., &mut x, ..)>, args) -> the final value of *x at return
       ('payload', Ok(v) | phi(Ok(v), Err..)) -> v
    so that constructors and &mut helpers become aggregates / field updates rules can read.
    `assumptions` (the world of the calling context) prune the callee bodies and decide
    Option::unwrap_or & co. of assumed values."""
    from .mir import intern
    if _memo is None:
        _memo = {}
    t = intern(t)
    if not isinstance(t, tuple) or depth < 0:
        return t
    k = id(t)
    if k in _memo:
        return _memo[k]
    _memo[k] = t
    rec = lambda x, d=depth: resolve_terms(prog, x, d, _memo, assumptions)
    if t and isinstance(t[0], str):
        if t[0] == "call":
            args = tuple(rec(a) for a in t[2])
            cb = _callee_body(prog, t)
            out = None
            if t[1].split("::")[-1] in ("call", "call_once", "call_mut") and "ops::Fn" in t[1] and len(args) == 2 and args[0][0] == "closure" and depth > 0 and prog.body(args[0][1]) is not None:
                # a local closure called on the spot: its body with captures and arguments bound
                cbq = prog.body(args[0][1])
                caps = {n: v for _, n, v in args[0][2]}
                pa = args[1][1] if args[1][0] == "tuple" else ()
                cq = Ctx(cbq, params={i + 2: a for i, a in enumerate(pa)}, captures=caps, assumptions=assumptions).settle()
                rq = cq.T.return_term()
                if not contains(rq, lambda s_: s_[0] in ("cycle", "undef")):
                    out = rec(rq, depth - 1)
            if out is None and t[1].startswith("cw_storage_plus::") and t[1].endswith("::update") and args and args[-1][0] == "closure" and depth > 0:
                # the value ITEM.update returns is what its closure returned for the loaded value
                cc = update_closure_ctx(prog, ("call", t[1], args), assumptions)
                if cc is not None:
                    rt_ = cc.settle().T.return_term()
                    if not contains(rt_, lambda s_: s_[0] in ("cycle", "undef")):
                        out = rec(rt_, depth - 1)
            if out is None and assumptions and t[1].endswith("Iterator::collect") and args and args[0][0] == "call" and args[0][1].endswith("Iterator::map") and len(args[0][2]) == 2:
                # opt.iter().map(f).collect(): zero or one element, decided by the world
                src_, clo_ = args[0][2]
                if src_[0] == "call" and src_[1] in ("std::option::Option::iter", "std::option::Option::iter_mut") and src_[2] and clo_[0] == "closure" and prog.body(clo_[1]) is not None:
                    a = assumed_ok(assumptions, src_[2][0])
                    if a is False:
                        out = ("call", "vec!", ())
                    elif a is True:
                        caps = {n: v for _, n, v in clo_[2]}
                        c2 = Ctx(prog.body(clo_[1]), params={2: ok_payload(src_[2][0])}, captures=caps, assumptions=assumptions).settle()
                        out = ("call", "vec!", (rec(c2.T.return_term(), depth - 1),))
            if out is None and t[1] == "std::option::Option::unzip" and len(args) == 1:
                a0 = args[0]
                if a0[0] == "agg" and a0[2] == "None":
                    none = ("agg", "std::option::Option", "None", ())
                    out = ("tuple", (none, none))
                elif a0[0] == "agg" and a0[2] == "Some" and a0[3][0][2][0] == "tuple" and len(a0[3][0][2][1]) == 2:
                    x_, y_ = a0[3][0][2][1]
                    out = ("tuple", (("agg", "std::option::Option", "Some", (("fld", "0", x_),)), ("agg", "std::option::Option", "Some", (("fld", "0", y_),))))
            def apply_fn(f_, arg_):
                """f_(arg_) for a closure, a local function item, or an enum tuple-variant constructor given as a function item"""
                if f_[0] == "closure" and prog.body(f_[1]) is not None:
                    caps_ = {n: v for _, n, v in f_[2]}
                    c2_ = Ctx(prog.body(f_[1]), params={2: arg_}, captures=caps_, assumptions=assumptions).settle()
                    return rec(c2_.T.return_term(), depth - 1)
                if f_[0] == "fn":
                    fb_ = prog.body(f_[1])
                    if fb_ is not None and fb_.kind == "fn" and _is_pure_small(prog, fb_):
                        c2_ = Ctx(fb_, params={1: arg_}, assumptions=assumptions).settle()
                        return rec(c2_.T.return_term(), depth - 1)
                    par_, _, var_ = f_[1].rpartition("::")
                    adt_ = prog.adts.get(par_)
                    if adt_ is not None and any(v_.get("name") == var_ for v_ in adt_.get("variants", [])):
                        return ("agg", par_, var_, (("fld", "0", arg_),))
                return None

            if out is None and assumptions and t[1] == "std::option::Option::map_or" and len(args) == 3:
                a = assumed_ok(assumptions, args[0])
                if a is False:
                    out = args[1]
                elif a is True:
                    out = apply_fn(args[2], ok_payload(args[0]))
            if out is None and assumptions and t[1] == "std::option::Option::map" and len(args) == 2:
                # Option::map of a value whose variant the world fixes
                a = assumed_ok(assumptions, args[0])
                if a is False:
                    out = ("agg", "std::option::Option", "None", ())
                elif a is True:
                    r_ = apply_fn(args[1], ok_payload(args[0]))
                    if r_ is not None:
                        out = ("agg", "std::option::Option", "Some", (("fld", "0", r_),))
            if out is None and t[1] in _UNWRAP_OR and args:
                a = assumed_ok(assumptions, args[0])
                if a is True:
                    out = ok_payload(args[0])
                elif a is False and t[1].endswith("unwrap_or") and len(args) > 1:
                    out = args[1]
            if out is None and t[1] == "std::option::Option::filter" and len(args) == 2 and args[0][0] == "agg" and args[0][2] in ("Some", "None") and args[1][0] == "closure" and prog.body(args[1][1]) is not None and depth > 0:
                # Some(v).filter(p) with a predicate the context decides (`|_| !status.is_final()` for a constant status)
                if args[0][2] == "None":
                    out = args[0]
                else:
                    caps_ = {n: v for _, n, v in args[1][2]}
                    cf_ = Ctx(prog.body(args[1][1]), params={2: args[0][3][0][2]}, captures=caps_, assumptions=assumptions).settle()
                    pv_ = rec(cf_.T.return_term(), depth - 1)
                    neg_ = False
                    while pv_[0] == "un" and pv_[1] == "Not":
                        pv_, neg_ = pv_[2], not neg_
                    if pv_[0] == "const" and pv_[1] == "bool":
                        out = args[0] if (pv_[2] != neg_) else ("agg", "std::option::Option", "None", ())
            if out is None and t[1].split("::")[-1] == "then_some" and "bool" in t[1] and len(args) == 2 and args[0][0] == "const" and args[0][1] == "bool":
                # a flag that the world (or the code) already fixed
                out = ("agg", "std::option::Option", "Some", (("fld", "0", args[1]),)) if args[0][2] else ("agg", "std::option::Option", "None", ())
            if out is None and t[1] == "std::option::Option::flatten" and len(args) == 1 and args[0][0] == "agg" and args[0][2] in ("Some", "None"):
                out = args[0][3][0][2] if args[0][2] == "Some" else args[0]
            if out is None and assumptions and t[1].split("::")[-1] == "then_some" and "bool" in t[1] and len(args) == 2:
                # flag.then_some(v): Some(v) when the world says the flag is set, None when it says it is not
                for pred_, val_ in assumptions:
                    if isinstance(val_, bool) and pred_ is not None and pred_(args[0]):
                        out = ("agg", "std::option::Option", "Some", (("fld", "0", args[1]),)) if val_ else ("agg", "std::option::Option", "None", ())
                        break
                    if pred_ is None and callable(val_):
                        v_ = val_(args[0])
                        if v_ is not None:
                            out = ("agg", "std::option::Option", "Some", (("fld", "0", args[1]),)) if v_ else ("agg", "std::option::Option", "None", ())
                            break
            if out is None and assumptions and t[1] in ("std::option::Option::or", "std::result::Result::or") and len(args) == 2:
                # a.or(b): a when the world says a is Some / Ok, b when it says None / Err
                a = assumed_ok(assumptions, args[0])
                if a is True:
                    out = args[0]
                elif a is False:
                    out = args[1]
            if out is None and cb is not None and depth > 0 and _is_pure_small(prog, cb):
                c = Ctx(cb, params={i + 1: a for i, a in enumerate(args)}, assumptions=assumptions).settle()
                rt = c.T.return_term()
                if not contains(rt, lambda s: s[0] in ("cycle", "undef")):
                    out = rec(rt, depth - 1)
            if out is None:
                out = ("call", t[1], args) + tuple(t[3:])
        elif t[0] == "mut":
            prev = rec(t[1])
            args = tuple(rec(a) for a in t[3])
            ai = t[4] if len(t) > 4 else 0
            cb = prog.body(t[2])
            out = None
            if cb is not None and depth > 0 and _is_pure_small(prog, cb):
                params = {ai + 1: prev}
                rest = list(args)
                for i in range(len(args) + 1):
                    if i != ai:
                        params[i + 1] = rest.pop(0)
                c = Ctx(cb, params=params, assumptions=assumptions).settle()
                finals = []
                for bi in sorted(c.T.reach):
                    if cb.blocks[bi]["term"]["k"] == "return":
                        # only the returns that are not error exits matter to a caller that goes on
                        finals.append((bi, c.T.place({"l": ai + 1, "p": ["deref"], "s": "(*_%d)" % (ai + 1)}, bi, len(cb.blocks[bi]["stmts"]))))
                okb = set(e["bb"] for e in exits(c) if e["kind"] != "err")
                errb = set(e["bb"] for e in exits(c) if e["kind"] == "err")
                if okb and errb:
                    # Result-returning helper: keep the final values that flow to a success return
                    keep = []
                    for bi, v in finals:
                        cut = c.with_removed(set((p_, b_) for b_ in errb for p_ in cb.preds()[b_]))
                        if bi in cut.T.reach:
                            v = cut.T.place({"l": ai + 1, "p": ["deref"], "s": "(*_%d)" % (ai + 1)}, bi, len(cb.blocks[bi]["stmts"]))
                            keep.append(v)
                    vals = keep or [v for _, v in finals]
                else:
                    vals = [v for _, v in finals]
                if vals and not any(contains(v, lambda s_: s_[0] in ("cycle", "undef")) for v in vals):
                    out = rec(Terms._phi(vals), depth - 1)
            if out is None:
                out = ("mut", prev, t[2], args) + tuple(t[4:])
        elif t[0] == "field":
            from .mir import field_of
            out = field_of(rec(t[1]), t[2])
        elif t[0] == "payload":
            out = ok_payload(rec(t[1]), t[2])
        elif t[0] == "trybranch":
            out = rec(t[1])
        elif t[0] == "variant" and len(t) == 3:
            # downcast of a value that resolves to a freshly built enum value of that variant: the value itself
            inner = rec(t[1])
            alts_v = [a_ for a_ in (inner[1] if inner[0] == "phi" else (inner,))]
            keep_v = [a_ for a_ in alts_v if a_[0] == "agg" and a_[2] == t[2]]
            if alts_v and all(a_[0] == "agg" for a_ in alts_v) and keep_v:
                out = keep_v[0] if len(keep_v) == 1 else Terms._phi(keep_v)
            else:
                out = ("variant", inner, t[2])
        else:
            out = (t[0],) + tuple(rec(x) if isinstance(x, tuple) else x for x in t[1:])
    else:
        out = tuple(rec(x) if isinstance(x, tuple) else x for x in t)
    out = intern(out)
    _memo[k] = out
    return out


def resolve_head(prog, t, assumptions=(), rounds=2):
    """inline only the outermost call of t (a local pure helper), leaving its arguments as written:
    `proto_coin(Coin::new(compute(..), d))` -> ProtoCoin{denom: d, amount: to_string(compute(..))}"""
    from .mir import intern
    for _ in range(rounds):
        head = t
        wrap = []
        while head[0] in ("payload", "trybranch"):
            wrap.append(head)
            head = head[1]
        if head[0] != "call":
            break
        cb = _callee_body(prog, head)
        if cb is None or not _is_pure_small(prog, cb):
            break
        c = Ctx(cb, params={i + 1: a for i, a in enumerate(head[2])}, assumptions=assumptions).settle()
        rt = c.T.return_term()
        if contains(rt, lambda s: s[0] in ("cycle", "undef")):
            break
        rt = resolve_terms(prog, rt, 0, None, assumptions)
        for w in reversed(wrap):
            rt = ok_payload(rt, w[2]) if w[0] == "payload" else rt
        t = intern(rt)
    return t


_UNWRAP_OR = {"std::option::Option::unwrap_or", "std::option::Option::unwrap_or_else", "std::option::Option::unwrap_or_default", "std::result::Result::unwrap_or"}
