"""C13 Treasury: trader-only swaps on allow-listed routes; admin-only spending."""
from .common import *
from . import shared
from .shared import agg_field, same, msg_field
from engine.analysis import storage_ops_deep, must_pass

CRATE = "treasury"
CLASS = {
    "SwapExactAmountIn": "swap", "SwapExactAmountOut": "swap",
    "SpendFunds": "admin", "UpdateConfig": "admin", "TransferOwnership": "admin", "RevokeOwnershipTransfer": "admin",
    "AcceptOwnership": "nominee",
}
# deployment constants (reviewed): local spends go to protocol-chain (Osmosis) addresses, IBC spends to native-chain (Celestia) addresses
PREFIX = {"local": "osmo", "ibc": "celestia"}
SWAP = {
    "SwapExactAmountIn": {"msg": "MsgSwapExactAmountIn", "route": "SwapAmountInRoute", "hop_field": "token_out_denom", "coin": "token_in", "limit": "token_out_min_amount", "end": ("first", "token_in_denom")},
    "SwapExactAmountOut": {"msg": "MsgSwapExactAmountOut", "route": "SwapAmountOutRoute", "hop_field": "token_in_denom", "coin": "token_out", "limit": "token_in_max_amount", "end": ("last", "token_out_denom")},
}


def run(R, env):
    prog = env.prog("default")
    R.rule("C13.R0", "every treasury ExecuteMsg variant is classified (swap / admin / nominee)")
    R.rule("C13.R1", "swaps: every success exit is behind `config.trader == info.sender` and behind `routes non-empty && allowed_swap_routes.any(|r| r == routes)` (whole-route equality, SwapRoute's derived PartialEq) on the config loaded from CONFIG")
    R.rule("C13.R2", "end points: exact-in rejects unless routes[0].token_in_denom == token_in.denom; exact-out rejects unless routes.last().token_out_denom == token_out.denom")
    R.rule("C13.R3", "message fidelity: sender = contract; routes = map over the validated routes of {pool_id, token_out_denom | token_in_denom}; coin = (denom, amount) of the offered coin; limit = the message's limit; in the Response on every success path")
    R.rule("C13.R4", "SpendFunds: behind assert_admin; channel_id None => receiver validated with the protocol prefix and BankMsg::Send{to: receiver, [amount]}; Some(c) => receiver validated with the native prefix and MsgTransfer{source_channel: c, receiver, token: amount}; validation failure is an error exit")
    R.rule("C13.R5", "UpdateConfig: behind assert_admin; only the supplied parts (trader, allowed routes) are written")
    dctx, table = handlers(prog, CRATE)
    variants = enum_variants(prog, "treasury::msg::ExecuteMsg")
    R.floor("C13.R0", "treasury ExecuteMsg variants", len(variants), 7)
    for v in variants:
        R.ob("C13.R0", "classified:" + v, v in CLASS, "variant has no class in the reviewed table", fn="treasury::contract::execute")
        R.ob("C13.R0", "dispatched:" + v, v in table and bool(table[v]["calls"]), "variant has no handler", fn="treasury::contract::execute")
    A = admin_guard(prog, CRATE)
    for v in variants:
        if CLASS.get(v) == "admin" and v in table and table[v]["calls"]:
            found = []
            ok, off = arm_guarded(prog, dctx, table[v], A, env.depth, found)
            R.ob("C13.R4" if v == "SpendFunds" else "C13.R5" if v == "UpdateConfig" else "C13.R0", v + ":admin", ok, "%s succeeds without assert_admin: %s" % (v, off), fn=table[v]["handlers"][0], found=found)
    # derived equality of SwapRoute
    eqs = [i for i in prog.impls if i["crate"] == CRATE and (i.get("self_adt") or "").endswith("state::SwapRoute") and (i.get("trait") or "").endswith("cmp::PartialEq")]
    R.ob("C13.R1", "SwapRoute-equality-is-derived", len(eqs) == 1 and eqs[0]["derive"], "SwapRoute's PartialEq impls: %s (a hand-written equality could ignore pool or denoms)" % [(i["derive"]) for i in eqs], fn="treasury::state::SwapRoute")
    fields = [f["name"] for f in (prog.adts.get("treasury::state::SwapRoute") or {"variants": [{"fields": []}]})["variants"][0]["fields"]]
    R.ob("C13.R1", "SwapRoute-fields", fields == ["pool_id", "token_in_denom", "token_out_denom"], "SwapRoute fields %s" % fields, fn="treasury::state::SwapRoute")
    # ------------------------------------------------------------ swaps
    for v, S in SWAP.items():
        if v not in table or not table[v]["calls"]:
            continue
        arm = table[v]
        hk = arm["handlers"][0]
        h = handler_ctx(prog, dctx, arm)
        routes = lambda t, v=v: msg_field(t, v, "routes")
        cfg = lambda t, f: loaded_field(prog, t, "config", [f], CRATE)

        def trader(t):
            if t[0] == "call" and t[1] in EQ:
                a, b = t[2]
                for x, y in ((a, b), (b, a)):
                    if cfg(x, "trader") and is_sender(y):
                        return EQ[t[1]]
            return None

        found = []
        ok, off = arm_guarded(prog, dctx, arm, Guard("trader", boolean=trader), env.depth, found)
        R.ob("C13.R1", v + ":trader-only", ok, "swap succeeds for a sender that is not the configured trader: %s" % (off,), fn=hk, found=found)

        # world: the route has length 0 (decides is_empty(), len() comparisons and slice patterns alike)
        w0 = h.assume_len(routes, 0).settle()
        R.worlds += 1
        from engine.analysis import success_exits
        succ0 = success_exits(w0)
        R.ob("C13.R1", v + ":empty-route-rejected", not succ0, "swap succeeds with an empty route: %s" % [w0.body.loc(e["bb"]) for e in succ0], fn=hk)

        def allowed(t):
            return membership(prog, t, lambda c_: cfg(c_, "allowed_swap_routes"), routes)

        found = []
        allowed_opt = lambda t: membership_option(prog, t, lambda c_: cfg(c_, "allowed_swap_routes"), routes)
        ok, off = arm_guarded(prog, dctx, arm, Guard("allow-listed", boolean=allowed, subject=allowed_opt), env.depth, found)
        R.ob("C13.R1", v + ":route-allow-listed", ok, "swap succeeds along a route that is not equal to an allow-listed route: %s" % (off,), fn=hk, found=found)
        # R2 end point
        which, fld = S["end"]
        coin = lambda t, S=S, v=v: msg_field(t, v, S["coin"])

        def hop_at(hop, which):
            """hop = routes[0] / routes.first() (first) or routes.last() / routes[len-1] (last), in any spelling;
            for `last` a merge with routes[0] (the one-element arm of a slice pattern) is the same element"""
            def one(x):
                if x[0] == "call" and x[1] == "std::ops::Index::index" and routes(x[2][0]) and const_int(x[2][1]) is not None:
                    return "first" if const_int(x[2][1]) == 0 else None
                if x[0] == "index" and routes(x[1]) and const_int(x[2]) is not None:
                    return "first" if const_int(x[2]) == 0 else ("last" if const_int(x[2]) == -1 else None)
                if x[0] == "payload":
                    c_ = shared.unwrap_payload(x)
                    if c_[0] == "call" and c_[1].split("::")[-1] in ("first", "last") and "slice" in c_[1] and routes(c_[2][0]):
                        return c_[1].split("::")[-1]
                return None
            kinds = [one(a) for a in (hop[1] if hop[0] == "phi" else (hop,))]
            if which == "first":
                return all(k == "first" for k in kinds)
            return "last" in kinds and all(k in ("last", "first") for k in kinds)

        def endpoint(t):
            if t[0] == "call" and t[1] in EQ:
                from engine.analysis import forms
                a, b = t[2]
                for x, y in ((a, b), (b, a)):
                    if y[0] == "field" and y[2] == "denom" and coin(y[1]):
                        for xf in forms(prog, x, 3):
                            alts_ = xf[1] if xf[0] == "phi" else (xf,)
                            if all(a_[0] == "field" and a_[2] == fld for a_ in alts_) and hop_at(("phi", tuple(a_[1] for a_ in alts_)) if len(alts_) > 1 else alts_[0][1], which):
                                return EQ[t[1]]
            return None

        found = []
        ok, off = guarded(h, Guard("end-point", boolean=endpoint), prog, env.depth, found)
        if not ok and not succ0:
            # a slice pattern (`[first, ..] if first.denom != coin.denom => Err, _ => {}`) leaves an untested arm for the
            # empty route, which cannot succeed (obligation above): judge the routes of length 1, 2, 3
            oks = [guarded(h.assume_len(routes, k_).settle(), Guard("end-point", boolean=endpoint), prog, env.depth, found) for k_ in (1, 2, 3)]
            R.worlds += 3
            if all(o_[0] for o_ in oks):
                ok, off = True, None
        R.ob("C13.R2", v + ":end-point-denom", ok, "swap succeeds although the %s hop's %s differs from the offered coin's denom: %s" % (which, fld, off), fn=hk, found=found)
        # R3 message
        msgs = shared.find_msgs(prog, h, env.depth, ["poolmanager::v1beta1::" + S["msg"]])
        R.ob("C13.R3", v + ":one-message", len(msgs) == 1, "found %d %s constructions" % (len(msgs), S["msg"]), fn=hk)
        for c, path, bi, t in msgs:
            loc = c.body.loc(bi)
            R.ob("C13.R3", v + ":sender", is_contract_addr(agg_field(t, "sender") or ("none",)), "sender = %s" % fmt(agg_field(t, "sender") or ("none",))[:80], loc=loc, fn=hk)
            rt = agg_field(t, "routes")
            goodr = False
            if rt is not None and rt[0] == "call" and rt[1].endswith("Iterator::collect") and rt[2][0][0] == "call" and rt[2][0][1].endswith("Iterator::map") and routes(rt[2][0][2][0]):
                f_ = rt[2][0][2][1]
                res = closure_result(prog, f_, params={2: ("hop",)})
                if f_[0] == "fn" and fn_item_body(prog, f_) is not None:
                    # `.map(SwapAmountInRoute::from)` with a local `impl From<&SwapRoute>`
                    res = Terms(fn_item_body(prog, f_), params={1: ("hop",)}).return_term()
                goodr = res is not None and res[0] == "agg" and res[1].endswith(S["route"]) and agg_field(res, "pool_id") == ("field", ("hop",), "pool_id") and agg_field(res, S["hop_field"]) == ("field", ("hop",), S["hop_field"]) and len(res[3]) == 2
            elif rt is not None:
                # loop form: every hop aggregate that flows into the vector is built, field by field,
                # from the element read by advancing an iterator over the validated routes themselves
                hops_ = [s_ for s_ in subterms(rt) if s_[0] == "agg" and s_[1].endswith(S["route"])]
                el = lambda x: is_next_elem(x, routes)
                goodr = bool(hops_) and all(len(a_[3]) == 2 and all((agg_field(a_, f_) or ("none",))[0] == "field" and agg_field(a_, f_)[2] == f_ and el(agg_field(a_, f_)[1]) for f_ in ("pool_id", S["hop_field"])) for a_ in hops_)
                pushes = [s_ for s_ in subterms(rt) if s_[0] == "mut" and s_[2] == "std::vec::Vec::push"]
                goodr = goodr and bool(pushes) and all(p_[3][0] in hops_ for p_ in pushes)
            R.ob("C13.R3", v + ":routes-reproduced", goodr, "message routes = %s; expected map over the validated routes of {pool_id, %s}" % (fmt(rt or ("none",))[:160], S["hop_field"]), loc=loc, fn=hk)
            from engine.analysis import forms
            goodc = False
            for cf in forms(prog, agg_field(t, S["coin"]) or ("none",), 2):
                amt, den = shared.coin_parts(cf)
                goodc = amt is not None and den is not None and amt[0] == "field" and amt[2] == "amount" and coin(amt[1]) and den[0] == "field" and den[2] == "denom" and coin(den[1])
                if goodc:
                    break
            R.ob("C13.R3", v + ":coin-reproduced", goodc, "message coin = (%s, %s)" % (fmt(den or ("none",))[:60], fmt(amt or ("none",))[:60]), loc=loc, fn=hk)
            lim = agg_field(t, S["limit"])
            R.ob("C13.R3", v + ":limit-reproduced", lim is not None and msg_field(lim, v, S["limit"]), "message limit = %s" % fmt(lim or ("none",))[:80], loc=loc, fn=hk)
            okp = all(shared.term_in_all_paths(term, lambda s_, t=t: norm(s_) == norm(t)) for _, term in success_terms(h))
            R.ob("C13.R3", v + ":in-response", okp, "the swap message does not reach the Response on every success path", loc=loc, fn=hk)
            other = [m for m in response_calls(success_terms(h)[0][1])] if success_terms(h) else []
            R.ob("C13.R3", v + ":only-message", len(other) == 1, "swap emits %d messages" % len(other), loc=loc, fn=hk)
    # ------------------------------------------------------------ R4 SpendFunds
    if "SpendFunds" in table and table["SpendFunds"]["calls"]:
        arm = table["SpendFunds"]
        hk = arm["handlers"][0]
        h = handler_ctx(prog, dctx, arm)
        ch = lambda t: msg_field(t, "SpendFunds", "channel_id")
        rcv = lambda t: msg_field(t, "SpendFunds", "receiver")
        amt_ = lambda t: msg_field(t, "SpendFunds", "amount")
        def is_addr_validator(s):
            # role, not name: a local two-argument function that bech32-decodes (its shape is checked below)
            cb = shared._body_of_call(prog, s)
            return cb is not None and cb.kind == "fn" and cb.nargs == 2 and any((call_name(t_) or "").startswith("bech32::decode") for _, t_ in cb.calls())

        for want, name in ((False, "local"), (True, "ibc")):
            rem, n = world_edges(h, ch, want)
            w = h.with_removed(rem).settle()
            R.worlds += 1
            # (the test may be a conversion into a local enum, `SpendDestination::from(channel_id)`: what counts is that
            # the two worlds differ)
            R.ob("C13.R4", "SpendFunds:%s:tests" % name, n >= 1 or w.T.reach != h.T.reach, "no test of channel_id found", fn=hk)
            from engine.analysis import resolve_terms as _rt13
            in_world = lambda x, w=w: _rt13(prog, x, 2, None, w.assumptions)
            G = Guard("receiver-prefix", subject=lambda s, name=name: s[0] == "call" and is_addr_validator(s) and len(s[2]) == 2 and rcv(s[2][0]) and (const_str(s[2][1]) == PREFIX[name] or const_str(in_world(s[2][1])) == PREFIX[name]))
            found = []
            ok, off = guarded(w, G, prog, env.depth, found)
            R.ob("C13.R4", "SpendFunds:%s:receiver-validated" % name, ok, "a %s spend succeeds without validate_address(receiver, \"%s\"): %s" % (name, PREFIX[name], off), fn=hk, found=found)
            banks = shared.find_msgs(prog, w, env.depth, ["cosmwasm_std::BankMsg", "bank::v1beta1::MsgSend"])
            trs = shared.transfers(prog, w, env)
            if not want:
                good = len(banks) == 1 and not trs
                R.ob("C13.R4", "SpendFunds:local:message-kind", good, "a local spend builds %d bank and %d IBC messages" % (len(banks), len(trs)), fn=hk)
                for c, path, bi, t in banks:
                    elems = shared.vec_elems(agg_field(t, "amount") or ("none",)) or []
                    def same_coin(x):
                        # the message's coin, or the same coin taken apart and put together again (`let Coin { denom, amount } = amount; .. Coin { denom, amount }`)
                        if amt_(x):
                            return True
                        if x[0] == "agg" and x[1].endswith("Coin") and len(x[3]) == 2:
                            fs_ = {n_: v_ for _, n_, v_ in x[3]}
                            return all(n_ in fs_ and fs_[n_][0] == "field" and fs_[n_][2] == n_ and amt_(fs_[n_][1]) for n_ in ("denom", "amount"))
                        return False
                    good = rcv(agg_field(t, "to_address") or ("none",)) and len(elems) == 1 and same_coin(elems[0])
                    R.ob("C13.R4", "SpendFunds:local:message", good, "BankMsg::Send{to: %s, amount: %s}; expected {receiver, [amount]}" % (fmt(agg_field(t, "to_address") or ("none",))[:60], [fmt(e)[:60] for e in elems]), loc=c.body.loc(bi), fn=hk)
            else:
                good = len(trs) == 1 and not banks
                R.ob("C13.R4", "SpendFunds:ibc:message-kind", good, "an IBC spend builds %d bank and %d IBC messages" % (len(banks), len(trs)), fn=hk)
                for t in trs:
                    a, d = t["amount"], t["denom"]
                    chv = in_world(t["channel"]) if t["channel"] is not None else None
                    good = t["receiver"] is not None and rcv(t["receiver"]) and chv is not None and chv[0] == "payload" and ch(chv[1])
                    good = good and a is not None and a[0] == "field" and a[2] == "amount" and amt_(a[1]) and d is not None and d[0] == "field" and d[2] == "denom" and amt_(d[1])
                    good = good and is_contract_addr(t["sender"] or ("none",))
                    R.ob("C13.R4", "SpendFunds:ibc:message", good, "MsgTransfer{channel: %s, receiver: %s, token: (%s, %s)}" % (fmt(t["channel"] or ("none",))[:50], fmt(t["receiver"] or ("none",))[:50], fmt(d or ("none",))[:40], fmt(a or ("none",))[:40]), loc=t["loc"], fn=hk)
            for _, term in success_terms_deep(prog, w):
                R.ob("C13.R4", "SpendFunds:%s:one-message-in-response" % name, len(response_calls(term)) == 1, "response carries %d messages" % len(response_calls(term)), fn=hk)
    # the receiver validator itself (treasury's own helper): decoded prefix equality, not a textual test
    vals = set()
    for b in prog.fn_bodies(CRATE):
        if b.kind == "fn" and b.nargs == 2 and any((call_name(t) or "").startswith("bech32::decode") for _, t in b.calls()):
            vals.add(b.key)
    R.floor("C13.R4", "treasury address validators", len(vals), 1)
    for k in sorted(vals):
        shared.address_validator_shape(R, prog, k, "C13.R4", tag="receiver-validator")
    # ------------------------------------------------------------ R5 UpdateConfig
    if "UpdateConfig" in table and table["UpdateConfig"]["calls"]:
        arm = table["UpdateConfig"]
        hk = arm["handlers"][0]
        h = handler_ctx(prog, dctx, arm)
        tr = lambda t: msg_field(t, "UpdateConfig", "trader")
        ro = lambda t: msg_field(t, "UpdateConfig", "allowed_swap_routes")
        for wt in (True, False):
            for wr_ in (True, False):
                rem1, n1 = world_edges(h, tr, wt)
                rem2, n2 = world_edges(h, ro, wr_)
                w = h.with_removed(rem1 | rem2).settle()
                R.worlds += 1
                want = set()
                if wt:
                    want.add(("trader",))
                if wr_:
                    want.add(("allowed_swap_routes",))
                for op, alts in shared.state_writes(prog, w, env, ns="config", crate=CRATE):
                    good = bool(alts) and n1 >= 1 and n2 >= 1
                    for base, d in alts or []:
                        if not shared.is_stored_base(prog, base, "config", CRATE) or set(d) != want:
                            good = False
                        if wt and ("trader",) in d:
                            v = d[("trader",)]
                            if not (v[0] == "payload" and shared.unwrap_payload(v)[0] == "call" and shared.unwrap_payload(v)[1].endswith("Api::addr_validate") and shared.unwrap_payload(v)[2][1][0] == "payload" and tr(shared.unwrap_payload(v)[2][1][1])):
                                good = False
                        if wr_ and ("allowed_swap_routes",) in d:
                            v = d[("allowed_swap_routes",)]
                            if not (v[0] == "payload" and ro(v[1])):
                                good = False
                    R.ob("C13.R5", "UpdateConfig:trader=%s,routes=%s" % ("Some" if wt else "None", "Some" if wr_ else "None"), good, "config written in this world changes %s; expected exactly %s from the message" % ([sorted(d) for _, d in (alts or [])], sorted(want)), loc=op["loc"], fn=hk)
