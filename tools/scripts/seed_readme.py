#!/usr/bin/env python3
"""rewrite seeded/README.md from the meta.json files as they are (no check is re-run; seed_refresh.py does that)"""
import json, os, re
VERIF = os.path.dirname(os.path.dirname(os.path.dirname(os.path.abspath(__file__))))
sd = os.path.join(VERIF, "seeded")
rows = []
for n in sorted(x for x in os.listdir(sd) if os.path.exists(os.path.join(sd, x, "meta.json"))):
    mp = os.path.join(sd, n, "meta.json")
    meta = json.load(open(mp))
    caught = meta.get("caught_by")
    if caught is None:
        cf = meta.get("checks_fired") or {}
        caught = {k: sorted(set(re.match(r"(C\d+\.[A-Z]\d+)", r_).group(1) for r_ in v if re.match(r"(C\d+\.[A-Z]\d+)", r_))) for k, v in cf.items()} if isinstance(cf, dict) else {k: [] for k in cf}
        meta["caught_by"] = caught
        meta["caught_by_target_property"] = meta["property"] in caught
        json.dump(meta, open(mp, "w"), indent=1)
    rows.append((n, meta["property"], meta["verdict"], caught))
with open(os.path.join(sd, "README.md"), "w") as fh:
    fh.write("# Independently seeded breaking changes\n\nEach directory holds a change written by a sub-agent that saw only the property text and a scratch worktree of /repo\n(nothing from /verif): `patch.diff` (the source change), `demo.rs` (an integration test that fails with the change and passes\nwithout it), `NOTES.md` (the author's notes), `meta.json` (what was run here: patch applies, the repository's own 107-test suite is green\nwith the change, the demonstration passes on the unchanged tree and fails with the change, and which checks and rules report it).\nAll were confirmed with `tools/scripts/seed_eval.py`; `tools/scripts/seed_refresh.py` re-runs the checks and rewrites this table.\nNone of these changes is ever applied to /repo.\n\n")
    fh.write("| change | breaks | confirmed | reported by its property's check | all checks that report it (rules) |\n|---|---|---|---|---|\n")
    for n, p, v, caught in rows:
        fh.write("| %s | %s | %s | %s | %s |\n" % (n, p, v, "yes" if p in caught else "**no**", "; ".join("%s (%s)" % (k, ", ".join(r_ for r_ in v2 if r_.startswith("C"))) for k, v2 in sorted(caught.items())) or "**none**"))
    fh.write("\n%d changes, %d reported by at least one check, %d by the check of the property they were written against.\n" % (len(rows), len([r for r in rows if r[3]]), len([r for r in rows if r[1] in r[3]])))
print(len(rows))
