// protoschema — E3 of /verif/DESIGN.md: syntax-tree facts the compiler does not keep.
// usage: protoschema <repo root> <out.json> [<osmosis-std src dir>]
// Parses (never compiles, never runs) the generated protobuf bindings, the type-URL registry, the
// module tree of lib.rs, the reference crate and the cfg occurrences in the staking sources.
use quote::ToTokens;
use std::fmt::Write as _;
use std::path::{Path, PathBuf};
use syn::visit::Visit;
use syn::{Fields, Item, Meta};

fn esc(s: &str) -> String {
    let mut o = String::with_capacity(s.len() + 2);
    o.push('"');
    for c in s.chars() {
        match c {
            '"' => o.push_str("\\\""),
            '\\' => o.push_str("\\\\"),
            '\n' => o.push_str("\\n"),
            '\t' => o.push_str("\\t"),
            '\r' => o.push_str("\\r"),
            c if (c as u32) < 0x20 => {
                let _ = write!(o, "\\u{:04x}", c as u32);
            }
            c => o.push(c),
        }
    }
    o.push('"');
    o
}

fn snake(s: &str) -> String {
    // prost's module naming: CamelCase -> snake_case (heck-like, good enough for matching)
    let mut o = String::new();
    let cs: Vec<char> = s.chars().collect();
    for (i, c) in cs.iter().enumerate() {
        if c.is_uppercase() {
            let prev_lower = i > 0 && (cs[i - 1].is_lowercase() || cs[i - 1].is_ascii_digit());
            let next_lower = i + 1 < cs.len() && cs[i + 1].is_lowercase();
            if i > 0 && (prev_lower || (next_lower && cs[i - 1].is_uppercase())) {
                o.push('_');
            }
            o.extend(c.to_lowercase());
        } else {
            o.push(*c);
        }
    }
    o
}

#[derive(Clone, Default)]
struct FieldSpec {
    name: String,
    kind: String,
    label: String,
    tags: Vec<String>,
    rust_ty: String,
    spec: String,
    line: usize,
}

fn split_top(s: &str) -> Vec<String> {
    let mut out = vec![];
    let mut cur = String::new();
    let mut inq = false;
    for c in s.chars() {
        if c == '"' {
            inq = !inq;
        }
        if c == ',' && !inq {
            out.push(cur.trim().to_string());
            cur.clear();
        } else {
            cur.push(c);
        }
    }
    if !cur.trim().is_empty() {
        out.push(cur.trim().to_string());
    }
    out
}

fn parse_prost(tokens: &str) -> (String, String, Vec<String>) {
    // returns (kind, label, tags)
    let mut kind = String::new();
    let mut label = String::new();
    let mut tags = vec![];
    let mut packed = String::new();
    for (i, it) in split_top(tokens).iter().enumerate() {
        let (k, v) = match it.find('=') {
            Some(p) => (it[..p].trim().to_string(), it[p + 1..].trim().trim_matches('"').to_string()),
            None => (it.trim().to_string(), String::new()),
        };
        match k.as_str() {
            "tag" => tags.push(v),
            "tags" => tags.extend(v.split(',').map(|x| x.trim().to_string())),
            "optional" | "repeated" | "required" => label = k,
            "packed" => packed = v,
            "boxed" => {}
            _ => {
                if i == 0 || kind.is_empty() {
                    kind = if v.is_empty() { k } else { format!("{}={}", k, v.replace(' ', "")) };
                }
            }
        }
    }
    if !packed.is_empty() {
        label = format!("{}(packed={})", label, packed);
    }
    (kind, label, tags)
}

fn attr_tokens(attrs: &[syn::Attribute], name: &str) -> Option<String> {
    for a in attrs {
        if a.path().is_ident(name) {
            if let Meta::List(l) = &a.meta {
                return Some(l.tokens.to_string());
            }
        }
    }
    None
}
fn derives(attrs: &[syn::Attribute], what: &str) -> bool {
    attrs.iter().any(|a| a.path().is_ident("derive") && a.meta.to_token_stream().to_string().replace(' ', "").contains(what))
}
fn type_url_attr(attrs: &[syn::Attribute]) -> Option<String> {
    for a in attrs {
        if a.path().is_ident("proto_message") {
            let t = a.meta.to_token_stream().to_string();
            if let Some(i) = t.find("\"/") {
                let r = &t[i + 2..];
                return Some(r[..r.find('"').unwrap_or(r.len())].to_string());
            }
        }
    }
    None
}

struct Msg {
    fqn: String,
    kind: &'static str,
    file: String,
    line: usize,
    rust_path: String,
    derive: bool,
    fields: Vec<FieldSpec>,
}

fn use_leaves(t: &syn::UseTree, prefix: &str, out: &mut Vec<(String, String)>) {
    // (exported name, path as written)
    match t {
        syn::UseTree::Path(p) => {
            let pre = if prefix.is_empty() { p.ident.to_string() } else { format!("{}::{}", prefix, p.ident) };
            use_leaves(&p.tree, &pre, out);
        }
        syn::UseTree::Name(n) => out.push((n.ident.to_string(), if prefix.is_empty() { n.ident.to_string() } else { format!("{}::{}", prefix, n.ident) })),
        syn::UseTree::Rename(r) => out.push((r.rename.to_string(), if prefix.is_empty() { r.ident.to_string() } else { format!("{}::{}", prefix, r.ident) })),
        syn::UseTree::Group(g) => {
            for it in &g.items {
                use_leaves(it, prefix, out);
            }
        }
        syn::UseTree::Glob(_) => out.push(("*".to_string(), format!("{}::*", prefix))),
    }
}

thread_local! {
    // `pub use` re-exports found in the generated files: (module rust path, package, exported name, target path as written, file, line)
    static USES: std::cell::RefCell<Vec<(String, String, String, String, String, usize)>> = std::cell::RefCell::new(vec![]);
}

fn walk(items: &[Item], pkg: &str, scope_fqn: &str, rust_path: &str, file: &str, use_url: bool, out: &mut Vec<Msg>, nonderive: &mut Vec<String>) {
    for it in items {
        if let Item::Use(u) = it {
            if matches!(u.vis, syn::Visibility::Public(_)) && !use_url {
                let mut ls = vec![];
                use_leaves(&u.tree, "", &mut ls);
                for (name, target) in ls {
                    let scope = if scope_fqn.is_empty() { pkg.to_string() } else { scope_fqn.to_string() };
                    USES.with(|v| v.borrow_mut().push((rust_path.to_string(), scope, name, target.replace("r#", ""), file.to_string(), u.use_token.span.start().line)));
                }
            }
        }
    }
    // names of messages in this scope, to resolve `pub mod <snake(parent)>` nesting
    let mut parents: Vec<(String, String)> = vec![]; // (snake name, fqn)
    for it in items {
        if let Item::Struct(s) = it {
            let mut fqn = if scope_fqn.is_empty() { format!("{}.{}", pkg, s.ident) } else { format!("{}.{}", scope_fqn, s.ident) };
            if use_url {
                if let Some(u) = type_url_attr(&s.attrs) {
                    fqn = u;
                }
            }
            parents.push((snake(&s.ident.to_string()), fqn));
        }
    }
    for it in items {
        match it {
            Item::Struct(s) => {
                let is_msg = derives(&s.attrs, "prost::Message");
                let fqn = parents.iter().find(|(sn, _)| *sn == snake(&s.ident.to_string())).map(|x| x.1.clone()).unwrap();
                if !is_msg {
                    nonderive.push(format!("{}:{} {}::{}", file, s.ident.span().start().line, rust_path, s.ident));
                    continue;
                }
                let mut fs = vec![];
                if let Fields::Named(n) = &s.fields {
                    for f in &n.named {
                        if let Some(sp) = attr_tokens(&f.attrs, "prost") {
                            let (kind, label, tags) = parse_prost(&sp);
                            fs.push(FieldSpec {
                                name: f.ident.as_ref().unwrap().to_string(),
                                kind,
                                label,
                                tags,
                                rust_ty: f.ty.to_token_stream().to_string().replace(' ', ""),
                                spec: sp.replace(' ', ""),
                                line: f.ident.as_ref().unwrap().span().start().line,
                            });
                        }
                    }
                }
                out.push(Msg { fqn, kind: "message", file: file.to_string(), line: s.ident.span().start().line, rust_path: format!("{}::{}", rust_path, s.ident), derive: true, fields: fs });
            }
            Item::Enum(e) => {
                let fqn = if scope_fqn.is_empty() { format!("{}.{}", pkg, e.ident) } else { format!("{}.{}", scope_fqn, e.ident) };
                if derives(&e.attrs, "prost::Oneof") {
                    // a oneof may share its name with a nested message: keep the two apart
                    let fqn = format!("{}#oneof", fqn);
                    let mut fs = vec![];
                    for v in &e.variants {
                        if let Some(sp) = attr_tokens(&v.attrs, "prost") {
                            let (kind, label, tags) = parse_prost(&sp);
                            fs.push(FieldSpec { name: v.ident.to_string(), kind, label, tags, rust_ty: v.fields.to_token_stream().to_string().replace(' ', ""), spec: sp.replace(' ', ""), line: v.ident.span().start().line });
                        }
                    }
                    out.push(Msg { fqn, kind: "oneof", file: file.to_string(), line: e.ident.span().start().line, rust_path: format!("{}::{}", rust_path, e.ident), derive: true, fields: fs });
                } else if derives(&e.attrs, "prost::Enumeration") {
                    let mut fs = vec![];
                    for v in &e.variants {
                        let val = v.discriminant.as_ref().map(|d| d.1.to_token_stream().to_string().replace(' ', "")).unwrap_or_default();
                        fs.push(FieldSpec { name: v.ident.to_string(), kind: "value".into(), label: String::new(), tags: vec![val], rust_ty: String::new(), spec: String::new(), line: v.ident.span().start().line });
                    }
                    out.push(Msg { fqn, kind: "enum", file: file.to_string(), line: e.ident.span().start().line, rust_path: format!("{}::{}", rust_path, e.ident), derive: true, fields: fs });
                }
            }
            Item::Mod(m) => {
                if let Some((_, its)) = &m.content {
                    let mn = m.ident.to_string();
                    let mn = mn.trim_start_matches("r#").to_string();
                    // nested-types module of a message in this scope?
                    let sc = parents.iter().find(|(sn, _)| *sn == mn).map(|x| x.1.clone());
                    let rp = format!("{}::{}", rust_path, mn);
                    match sc {
                        Some(pf) => walk(its, pkg, &pf, &rp, file, use_url, out, nonderive),
                        None => {
                            // plain module (generated clients/servers, or reference crate's package tree)
                            walk(its, pkg, scope_fqn, &rp, file, use_url, out, nonderive)
                        }
                    }
                }
            }
            _ => {}
        }
    }
}

fn msgs_json(ms: &[Msg]) -> String {
    let mut o = String::from("{");
    for (i, m) in ms.iter().enumerate() {
        if i > 0 {
            o.push(',');
        }
        let _ = write!(o, "{}:{{\"kind\":{},\"file\":{},\"line\":{},\"rust_path\":{},\"fields\":[", esc(&m.fqn), esc(m.kind), esc(&m.file), m.line, esc(&m.rust_path));
        for (j, f) in m.fields.iter().enumerate() {
            if j > 0 {
                o.push(',');
            }
            let tags: Vec<String> = f.tags.iter().map(|t| esc(t)).collect();
            let _ = write!(o, "{{\"name\":{},\"kind\":{},\"label\":{},\"tags\":[{}],\"rust_ty\":{},\"line\":{}}}", esc(&f.name), esc(&f.kind), esc(&f.label), tags.join(","), esc(&f.rust_ty), f.line);
        }
        o.push_str("]}");
    }
    o.push('}');
    o
}

// ---------------------------------------------------------------- lib.rs module tree / include! sites
struct Inc {
    module: String,
    file: String,
    line: usize,
}
fn walk_lib(items: &[Item], path: &str, out: &mut Vec<Inc>) {
    for it in items {
        match it {
            Item::Mod(m) => {
                if let Some((_, its)) = &m.content {
                    let n = m.ident.to_string();
                    let n = n.trim_start_matches("r#");
                    let p = if path.is_empty() { n.to_string() } else { format!("{}::{}", path, n) };
                    walk_lib(its, &p, out);
                }
            }
            Item::Macro(mc) => {
                if mc.mac.path.is_ident("include") {
                    let t = mc.mac.tokens.to_string();
                    let f = t.trim().trim_matches('"').to_string();
                    out.push(Inc { module: path.to_string(), file: f, line: mc.mac.path.segments[0].ident.span().start().line });
                }
            }
            _ => {}
        }
    }
}

// ---------------------------------------------------------------- cfg scan
struct CfgV<'a> {
    file: &'a str,
    out: &'a mut Vec<(String, usize, String)>,
}
impl<'a, 'ast> Visit<'ast> for CfgV<'a> {
    fn visit_attribute(&mut self, a: &'ast syn::Attribute) {
        if a.path().is_ident("cfg") || a.path().is_ident("cfg_attr") {
            let line = a.pound_token.span.start().line;
            self.out.push((self.file.to_string(), line, a.meta.to_token_stream().to_string()));
        }
        syn::visit::visit_attribute(self, a);
    }
    fn visit_macro(&mut self, m: &'ast syn::Macro) {
        if m.path.is_ident("cfg") {
            let line = m.path.segments[0].ident.span().start().line;
            self.out.push((self.file.to_string(), line, format!("cfg!({})", m.tokens)));
        }
        syn::visit::visit_macro(self, m);
    }
}

fn rs_files(dir: &Path, out: &mut Vec<PathBuf>) {
    if let Ok(rd) = std::fs::read_dir(dir) {
        let mut es: Vec<PathBuf> = rd.filter_map(|e| e.ok().map(|e| e.path())).collect();
        es.sort();
        for p in es {
            if p.is_dir() {
                rs_files(&p, out);
            } else if p.extension().map(|x| x == "rs").unwrap_or(false) {
                out.push(p);
            }
        }
    }
}

fn main() {
    let args: Vec<String> = std::env::args().collect();
    let repo = PathBuf::from(&args[1]);
    let outp = &args[2];
    let refdir = args.get(3).cloned();
    let pp = repo.join("packages/initia-proto/src");

    // 1. generated files
    let mut local: Vec<Msg> = vec![];
    let mut nonderive = vec![];
    let mut files: Vec<PathBuf> = vec![];
    rs_files(&pp.join("proto"), &mut files);
    let mut parse_errors: Vec<String> = vec![];
    for p in &files {
        let pkg = p.file_stem().unwrap().to_str().unwrap().to_string();
        let rel = format!("packages/initia-proto/src/proto/{}", p.file_name().unwrap().to_str().unwrap());
        match syn::parse_file(&std::fs::read_to_string(p).unwrap()) {
            Ok(f) => walk(&f.items, &pkg, "", &pkg.replace('.', "::"), &rel, false, &mut local, &mut nonderive),
            Err(e) => parse_errors.push(format!("{}: {}", rel, e)),
        }
    }
    // 2. lib.rs include tree
    let mut incs = vec![];
    match syn::parse_file(&std::fs::read_to_string(pp.join("lib.rs")).unwrap()) {
        Ok(f) => walk_lib(&f.items, "", &mut incs),
        Err(e) => parse_errors.push(format!("lib.rs: {}", e)),
    }
    // 3. type urls
    let mut urls: Vec<(String, String, usize)> = vec![];
    match syn::parse_file(&std::fs::read_to_string(pp.join("type_urls.rs")).unwrap()) {
        Ok(f) => {
            for it in &f.items {
                if let Item::Impl(im) = it {
                    let is_tu = im.trait_.as_ref().map(|t| t.1.segments.last().unwrap().ident == "TypeUrl").unwrap_or(false);
                    if !is_tu {
                        continue;
                    }
                    let ty = im.self_ty.to_token_stream().to_string().replace(' ', "").replace("r#", "");
                    for ii in &im.items {
                        if let syn::ImplItem::Const(c) = ii {
                            if c.ident == "TYPE_URL" {
                                let v = c.expr.to_token_stream().to_string();
                                urls.push((ty.clone(), v.trim().trim_matches('"').to_string(), c.ident.span().start().line));
                            }
                        }
                    }
                }
            }
        }
        Err(e) => parse_errors.push(format!("type_urls.rs: {}", e)),
    }
    // 4. reference crate
    let mut reference: Vec<Msg> = vec![];
    let mut nd2 = vec![];
    if let Some(rd) = &refdir {
        let mut rf = vec![];
        rs_files(Path::new(rd), &mut rf);
        for p in &rf {
            if let Ok(f) = syn::parse_file(&std::fs::read_to_string(p).unwrap()) {
                walk(&f.items, "?", "", "", p.to_str().unwrap_or(""), true, &mut reference, &mut nd2);
            }
        }
    }
    // 5. cfg occurrences in the staking sources + token-factory back-ends
    let mut cfgs = vec![];
    let mut sfiles = vec![];
    rs_files(&repo.join("contracts/staking/src"), &mut sfiles);
    let mut tf = String::from("{");
    let mut first_tf = true;
    for p in &sfiles {
        let rel = p.strip_prefix(&repo).unwrap().to_str().unwrap().to_string();
        if rel.contains("/tests/") {
            continue;
        }
        if let Ok(f) = syn::parse_file(&std::fs::read_to_string(p).unwrap()) {
            let mut v = CfgV { file: &rel, out: &mut cfgs };
            v.visit_file(&f);
            if rel.contains("/tokenfactory/") {
                let mut sigs = vec![];
                for it in &f.items {
                    if let Item::Fn(func) = it {
                        let args: Vec<String> = func.sig.inputs.iter().map(|a| a.to_token_stream().to_string().replace(' ', "")).collect();
                        let ret = func.sig.output.to_token_stream().to_string().replace(' ', "");
                        let vis = func.vis.to_token_stream().to_string();
                        sigs.push(format!("{{\"name\":{},\"args\":[{}],\"ret\":{},\"vis\":{}}}", esc(&func.sig.ident.to_string()), args.iter().map(|a| esc(a)).collect::<Vec<_>>().join(","), esc(&ret), esc(&vis)));
                    }
                }
                if !first_tf {
                    tf.push(',');
                }
                first_tf = false;
                let _ = write!(tf, "{}:[{}]", esc(&rel), sigs.join(","));
            }
        }
    }
    tf.push('}');

    let mut o = String::new();
    o.push('{');
    let _ = write!(o, "\"n_files\":{},\"parse_errors\":[{}],", files.len(), parse_errors.iter().map(|e| esc(e)).collect::<Vec<_>>().join(","));
    let _ = write!(o, "\"includes\":[{}],", incs.iter().map(|i| format!("{{\"module\":{},\"file\":{},\"line\":{}}}", esc(&i.module), esc(&i.file), i.line)).collect::<Vec<_>>().join(","));
    let _ = write!(o, "\"type_urls\":[{}],", urls.iter().map(|u| format!("{{\"rust_path\":{},\"url\":{},\"line\":{}}}", esc(&u.0), esc(&u.1), u.2)).collect::<Vec<_>>().join(","));
    let _ = write!(o, "\"nonderive_structs\":[{}],", nonderive.iter().map(|e| esc(e)).collect::<Vec<_>>().join(","));
    let uses: Vec<String> = USES.with(|v| v.borrow().iter().map(|u| format!("{{\"module\":{},\"scope\":{},\"name\":{},\"target\":{},\"file\":{},\"line\":{}}}", esc(&u.0), esc(&u.1), esc(&u.2), esc(&u.3), esc(&u.4), u.5)).collect());
    let _ = write!(o, "\"uses\":[{}],", uses.join(","));
    let _ = write!(o, "\"cfg\":[{}],", cfgs.iter().map(|c| format!("{{\"file\":{},\"line\":{},\"text\":{}}}", esc(&c.0), c.1, esc(&c.2))).collect::<Vec<_>>().join(","));
    let _ = write!(o, "\"tokenfactory\":{},", tf);
    let _ = write!(o, "\"local\":{},", msgs_json(&local));
    let _ = write!(o, "\"reference\":{}", msgs_json(&reference));
    o.push('}');
    std::fs::write(outp, o).unwrap();
}
