"""C05 Pro-rata, at-most-once withdrawal of unbonded tokens."""
from .common import *
from . import shared
from .shared import agg_field
from engine.analysis import storage_ops_deep, must_pass

CRATE = "staking"
LST = ["liquid_stake_token_denom"]


def run(R, env):
    prog = env.prog("default")
    R.rule("C05.R1", "Withdraw: payout formula roles, own request only, claim removed on every success path, Received batches only (same obligations as C02.R1)")
    R.rule("C05.R2", "LiquidUnstake per world of the caller's existing request: Some => the request keeps batch_id and user and amount := old + paid; None => new request {pending id, sender, paid} under key (pending id, sender); in both the pending batch total += the same paid amount, and unstake_requests_count += 1 only in world None")
    R.rule("C05.R3", "keys: every unstake_requests() write uses key (batch id, user) equal to the record's own batch_id/user; the unique index is (user, batch_id)")
    R.rule("C05.R4", "the amount received for a batch is fixed once the batch is Received: only a Submitted batch can take a delivery, so a payout does not depend on the order or timing of other withdrawals (rule bodies of C06.R2/R3 for ReceiveUnstakedTokens)")
    R.assume("sum of payouts <= received is an arithmetic consequence of floor and batch_total == sum(requests) (R2); not machine-checked")
    sites = shared.site_contexts(prog, CRATE, env)
    if "Withdraw" not in sites or "LiquidUnstake" not in sites:
        R.ob("C05.R1", "handlers", False, "Withdraw/LiquidUnstake not dispatched", fn="staking::contract::execute")
        return
    shared.withdraw_rules(R, env, prog, sites["Withdraw"], "C05.R1", "C05")
    from engine.runner import Remap
    from . import C06

    class _OnlyReceive(Remap):
        def ob(self, rule, instance, ok, detail="", loc=None, fn=None, found=None):
            if not instance.startswith("ReceiveUnstakedTokens"):
                return bool(ok)
            return Remap.ob(self, rule, instance, ok, detail, loc, fn, found)

        def floor(self, rule, what, count, minimum):
            if "ReceiveUnstakedTokens" not in what:
                return None
            return Remap.floor(self, rule, what, count, minimum)

    C06.run(_OnlyReceive(R, {"C06.R2": "C05.R4", "C06.R3": "C05.R4"}), env)
    h = sites["LiquidUnstake"]
    hk = h.body.key
    paid = lambda t: shared.is_paid(prog, t, LST)
    pend = lambda t: is_load(prog, t, "pending_batch_id", CRATE) and t[0] == "payload"
    key_ok = lambda k: k[0] == "tuple" and len(k[1]) == 2 and pend(k[1][0]) and is_sender(k[1][1])

    def req_pred(t):  # the Option returned by may_load(unstake_requests, (pending, sender))?
        c = shared.unwrap_payload(t)
        return t[0] == "payload" and c[0] == "call" and c[1].endswith("IndexedMap::may_load") and ns_of(prog, c[2][0]) == "unstake_requests" and key_ok(c[2][2])

    for want, name in ((True, "Some"), (False, "None")):
        rem, n = world_edges(h, req_pred, want)
        w = h.with_removed(rem).settle()
        R.worlds += 1
        R.ob("C05.R2", "LiquidUnstake:request=%s:tests" % name, n >= 1, "no test of the caller's existing request found", fn=hk)
        ops = [op for op in storage_ops_deep(prog, w, env.depth) if op["kind"] == "w"]
        rq = [op for op in ops if ns_of(prog, op["args"][0]) == "unstake_requests"]
        bt = [op for op in ops if ns_of(prog, op["args"][0]) == "batches"]
        other = [op for op in ops if op not in rq and op not in bt]
        R.ob("C05.R2", "LiquidUnstake:request=%s:write-set" % name, len(rq) == 1 and len(bt) == 1 and not other, "writes in this world: requests %s, batches %s, other %s" % ([o["op"] for o in rq], [o["op"] for o in bt], [(ns_of(prog, o["args"][0]), o["op"]) for o in other]), fn=hk)
        for op in rq:
            R.ob("C05.R2", "LiquidUnstake:request=%s:key" % name, key_ok(op["args"][2]), "request written under %s, expected (pending batch id, info.sender)" % fmt(op["args"][2])[:140], loc=op["loc"], fn=hk)
            R.ob("C05.R2", "LiquidUnstake:request=%s:on-every-success-path" % name, must_pass(w, op["root_bb"]), "unstake can succeed without recording the request", loc=op["loc"], fn=hk)
            if want:
                good = op["op"] == "update"
                if good:
                    res = closure_result(prog, op["args"][3], params={2: ("stored", "req")})
                    old = ("payload", ("stored", "req"), "Ok/Some")
                    alts = [r for r in (res[1] if res and res[0] == "phi" else (res,)) if r and not (r[0] == "agg" and r[2] == "Err")]
                    good = bool(alts)
                    for r in alts:
                        rec = r[3][0][2] if r[0] == "agg" and r[2] == "Ok" else None
                        if rec is None or rec[0] != "agg":
                            good = False
                            continue
                        am = fold(agg_field(rec, "amount"))
                        am_ok = (am[0] == "call" and am[1] == "std::ops::Add::add" and {norm(am[2][0]), norm(am[2][1])} == {norm(("field", old, "amount")), norm(_paid_term(h, prog, paid))}) if _paid_term(h, prog, paid) else False
                        if not (norm(agg_field(rec, "batch_id")) == norm(("field", old, "batch_id")) and norm(agg_field(rec, "user")) == norm(("field", old, "user")) and am_ok):
                            good = False
                R.ob("C05.R2", "LiquidUnstake:request=Some:accumulates", good, "existing request is not replaced by {same batch_id, same user, amount: old + paid}", loc=op["loc"], fn=hk)
            else:
                good = op["op"] == "save"
                if good:
                    rec = op["args"][3]
                    good = rec[0] == "agg" and pend(agg_field(rec, "batch_id")) and is_sender(agg_field(rec, "user")) and paid(agg_field(rec, "amount"))
                R.ob("C05.R2", "LiquidUnstake:request=None:creates", good, "new request is not {batch_id: pending id, user: info.sender, amount: paid}: %s" % fmt(op["args"][-1])[:200], loc=op["loc"], fn=hk)
        for op in bt:
            R.ob("C05.R2", "LiquidUnstake:request=%s:batch-key" % name, pend(op["args"][2]), "batch updated under %s" % fmt(op["args"][2])[:100], loc=op["loc"], fn=hk)
            R.ob("C05.R2", "LiquidUnstake:request=%s:batch-on-every-success-path" % name, must_pass(w, op["root_bb"]), "unstake can succeed without adding to the batch total", loc=op["loc"], fn=hk)
            # evaluate the closure in the same world (it sees the world through a captured boolean)
            cc = closure_ctx(prog, op["args"][3], params={2: ("stored", "batches")})
            good = cc is not None
            if good:
                rem2, _ = world_edges(cc, req_pred, want)
                cw = cc.with_removed(rem2).settle()
                res = cw.T.return_term()
                alts = [r for r in (res[1] if res[0] == "phi" else (res,)) if not (r[0] == "agg" and r[2] == "Err")]
                good = len(alts) == 1 and alts[0][0] == "agg" and alts[0][2] == "Ok"
                if good:
                    ds = struct_deltas(alts[0][3][0][2])
                    good = len(ds) == 1
                    for base, d in ds:
                        want_fields = {("batch_total_liquid_stake",)} | (set() if want else {("unstake_requests_count",)})
                        if set(d) != want_fields or not shared.is_stored_base(prog, base, "batches", CRATE):
                            good = False
                            continue
                        v = d[("batch_total_liquid_stake",)]
                        if not (delta_op(v)[0] == "+=" and paid(delta_op(v)[1])):
                            good = False
                        if not want:
                            cnt = fold(d[("unstake_requests_count",)])
                            okc = cnt[0] == "agg" and cnt[2] == "Some" and cnt[3][0][2][0] == "bin" and cnt[3][0][2][1] == "Add" and const_int(cnt[3][0][2][3]) == 1
                            if not okc:
                                good = False
            R.ob("C05.R2", "LiquidUnstake:request=%s:batch-delta" % name, good, "in this world the pending batch is not updated by exactly {batch_total_liquid_stake += paid%s}" % ("" if want else ", unstake_requests_count += 1"), loc=op["loc"], fn=hk)
    # ---------------- R3: key == record for every write in the crate; index closure
    n = 0
    for site, c in sites.items():
        for op in storage_ops_deep(prog, c, env.depth):
            if op["kind"] == "w" and ns_of(prog, op["args"][0]) == "unstake_requests" and op["op"] == "save":
                n += 1
                k, rec = op["args"][2], op["args"][3]
                good = k[0] == "tuple" and rec[0] == "agg" and norm(k[1][0]) == norm(agg_field(rec, "batch_id")) and norm(k[1][1]) == norm(agg_field(rec, "user"))
                R.ob("C05.R3", "key==record:%s" % site, good, "record %s saved under key %s" % (fmt(rec)[:120], fmt(k)[:100]), loc=op["loc"], fn=op["fn"])
    R.floor("C05.R3", "unstake_requests saves", n, 1)
    ib = [b for b in prog.fn_bodies(CRATE) if b.kind == "fn" and any(call_name(t) == "cw_storage_plus::IndexedMap::new" for _, t in b.calls())]
    R.floor("C05.R3", "IndexedMap constructors", len(ib), 1)
    for b in ib:
        c = Ctx(b)
        for bi, t, args in call_sites(c, lambda nm: nm == "cw_storage_plus::UniqueIndex::new"):
            idxf = args[0]
            res = None
            if idxf[0] == "closure":
                res = closure_result(prog, idxf, params={2: ("rec",)})
            elif idxf[0] == "fn":
                fb = prog.body(idxf[1])
                res = Terms(fb, params={1: ("rec",)}).return_term() if fb else None
            good = res is not None and res[0] == "tuple" and len(res[1]) == 2 and res[1][0] == ("field", ("rec",), "user") and res[1][1] == ("field", ("rec",), "batch_id")
            R.ob("C05.R3", "unique-index-is-(user,batch_id)", good, "index function yields %s" % fmt(res or ("none",))[:120], loc=b.loc(bi), fn=b.key)


def _paid_term(h, prog, paid):
    for p in (h.T.params or {}).values():
        if paid(p):
            return p
    return None
