"""Fact cache: runs E1 (mirfacts) and E3 (protoschema) on /repo's *current working tree*.

Facts are cached under a content hash of every *.rs / Cargo.toml / Cargo.lock below /repo, so
the twenty per-property commands share one extraction per tree state and any edit to /repo
forces a new extraction.  Fails closed: a missing or stale fact file is an error, never a pass.
"""
import fcntl
import hashlib
import json
import os
import shutil
import subprocess
import sys
import time

VERIF = os.path.dirname(os.path.dirname(os.path.abspath(__file__)))
REPO = os.environ.get("VERIF_REPO", "/repo")
CACHE = os.environ.get("VERIF_CACHE", os.path.join(VERIF, ".cache"))
DRIVER_DIR = os.path.join(VERIF, "tools", "mirfacts")
DRIVER = os.path.join(DRIVER_DIR, "target", "release", "mirfacts")
SHIM = os.path.join(VERIF, "tools", "rustc-shim")
PROTO_DIR = os.path.join(VERIF, "tools", "protoschema")
PROTO = os.path.join(PROTO_DIR, "target", "release", "protoschema")

CONFIGS = {
    "default": {"args": ["--workspace"], "crates": ["staking", "treasury", "milky_way", "initia_proto"]},
    "miniwasm": {
        "args": ["-p", "staking", "--no-default-features", "--features", "miniwasm"],
        "crates": ["staking", "milky_way", "initia_proto"],
    },
}
MEMBERS = ["staking", "treasury", "milky_way", "initia-proto", "initia_proto"]


class FactError(Exception):
    pass


class CompileError(FactError):
    def __init__(self, config, stderr):
        super().__init__("configuration %s does not compile" % config)
        self.config = config
        self.stderr = stderr


def tree_hash(repo=None):
    repo = repo or REPO
    h = hashlib.sha256()
    files = []
    for root, dirs, fs in os.walk(repo):
        dirs[:] = sorted(d for d in dirs if d not in ("target", ".git", "node_modules"))
        for f in sorted(fs):
            if f.endswith(".rs") or f in ("Cargo.toml", "Cargo.lock"):
                files.append(os.path.join(root, f))
    for f in files:
        h.update(os.path.relpath(f, repo).encode())
        h.update(b"\0")
        with open(f, "rb") as fh:
            h.update(fh.read())
        h.update(b"\0")
    # the MIR extractor itself is part of the key (the syntax-tree extractor keys its own output: ensure_proto)
    for f in (os.path.join(DRIVER_DIR, "src", "main.rs"),):
        if os.path.exists(f):
            with open(f, "rb") as fh:
                h.update(fh.read())
    return h.hexdigest()[:20]


def _proto_tool_hash():
    f = os.path.join(PROTO_DIR, "src", "main.rs")
    return hashlib.sha256(open(f, "rb").read()).hexdigest()[:10] if os.path.exists(f) else "none"


class _Lock:
    def __init__(self, name):
        os.makedirs(CACHE, exist_ok=True)
        self.path = os.path.join(CACHE, name)

    def __enter__(self):
        self.fh = open(self.path, "w")
        fcntl.flock(self.fh, fcntl.LOCK_EX)
        return self

    def __exit__(self, *a):
        fcntl.flock(self.fh, fcntl.LOCK_UN)
        self.fh.close()


def _env():
    env = dict(os.environ)
    env["CARGO_NET_OFFLINE"] = "true"
    return env


def _sysroot_lib():
    out = subprocess.run(["rustc", "+nightly", "--print", "sysroot"], capture_output=True, text=True, env=_env())
    if out.returncode != 0:
        raise FactError("nightly toolchain not available: " + out.stderr)
    return os.path.join(out.stdout.strip(), "lib")


def _newer(src_files, target):
    if not os.path.exists(target):
        return True
    t = os.path.getmtime(target)
    return any(os.path.getmtime(s) > t for s in src_files if os.path.exists(s))


def build_tools(verbose=False):
    """build E1 and E3 (offline, from files on disk) when missing or older than their sources."""
    with _Lock("build.lock"):
        if _newer([os.path.join(DRIVER_DIR, "src", "main.rs"), os.path.join(DRIVER_DIR, "Cargo.toml")], DRIVER):
            r = subprocess.run(["cargo", "build", "--release", "--offline"], cwd=DRIVER_DIR, capture_output=True, text=True, env=_env())
            if r.returncode != 0:
                raise FactError("cannot build mirfacts driver:\n" + r.stderr[-4000:])
        if os.path.isdir(PROTO_DIR) and _newer(
            [os.path.join(PROTO_DIR, "src", "main.rs"), os.path.join(PROTO_DIR, "Cargo.toml")], PROTO
        ):
            r = subprocess.run(["cargo", "build", "--release", "--offline"], cwd=PROTO_DIR, capture_output=True, text=True, env=_env())
            if r.returncode != 0:
                raise FactError("cannot build protoschema:\n" + r.stderr[-4000:])


def _prune(base, keep=96):
    try:
        ds = [os.path.join(base, d) for d in os.listdir(base)]
        ds = [d for d in ds if os.path.isdir(d)]
        ds.sort(key=os.path.getmtime, reverse=True)
        for d in ds[keep:]:
            shutil.rmtree(d, ignore_errors=True)
    except FileNotFoundError:
        pass


def ensure(config="default", repo=None, verbose=False):
    """return the directory holding <crate>.json for `config`, extracting if necessary."""
    repo = repo or REPO
    cfg = CONFIGS[config]
    build_tools()
    h = tree_hash(repo)
    base = os.path.join(CACHE, "facts")
    d = os.path.join(base, h, config)
    marker = os.path.join(d, "COMPLETE")
    failed = os.path.join(d, "COMPILE_ERROR")
    if os.path.exists(marker):
        try:
            os.utime(os.path.join(base, h), None)  # LRU: keep what is in use
        except OSError:
            pass
        return d
    if os.path.exists(failed):
        raise CompileError(config, open(failed).read())
    with _Lock("facts-%s.lock" % config):
        if os.path.exists(marker):
            return d
        if os.path.exists(failed):
            raise CompileError(config, open(failed).read())
        os.makedirs(d, exist_ok=True)
        # a shared target dir per configuration keeps the dependencies warm
        tdir = os.path.join(CACHE, "target-" + config)
        fp = os.path.join(tdir, "debug", ".fingerprint")
        if os.path.isdir(fp):
            for e in os.listdir(fp):
                if any(e.startswith(m + "-") for m in MEMBERS) or e.startswith("schema-"):
                    shutil.rmtree(os.path.join(fp, e), ignore_errors=True)
        nonce = "%s-%d-%d" % (h, os.getpid(), int(time.time() * 1000))
        env = _env()
        env["LD_LIBRARY_PATH"] = _sysroot_lib() + (":" + env["LD_LIBRARY_PATH"] if env.get("LD_LIBRARY_PATH") else "")
        env["RUSTC_WRAPPER"] = SHIM
        env["RUSTC_WORKSPACE_WRAPPER"] = DRIVER
        env["CARGO_TARGET_DIR"] = tdir
        env["RUSTFLAGS"] = "-Awarnings -Zmir-opt-level=0"
        env["MIRFACTS_OUT"] = d
        env["MIRFACTS_NONCE"] = nonce
        env["MIRFACTS_CONFIG"] = config
        env.pop("CARGO_BUILD_TARGET", None)
        t0 = time.time()
        r = subprocess.run(
            ["cargo", "+nightly", "check", "--offline"] + cfg["args"],
            cwd=repo,
            capture_output=True,
            text=True,
            env=env,
        )
        if r.returncode != 0:
            with open(failed, "w") as fh:
                fh.write(r.stderr[-8000:])
            raise CompileError(config, r.stderr[-8000:])
        for c in cfg["crates"]:
            f = os.path.join(d, c + ".json")
            if not os.path.exists(f):
                raise FactError("fact file missing for (%s, %s): the driver did not run (stale cargo cache?)" % (config, c))
            with open(f) as fh:
                head = fh.read(400)
            if nonce not in head:
                raise FactError("fact file for (%s, %s) carries an old nonce" % (config, c))
        with open(marker, "w") as fh:
            fh.write(json.dumps({"nonce": nonce, "wall_s": round(time.time() - t0, 2), "hash": h}))
        _prune(base)
        return d


def reference_crate_dir(repo, name):
    """source directory of a dependency, located with `cargo metadata --offline` (never a hard-coded path)."""
    r = subprocess.run(["cargo", "metadata", "--offline", "--format-version", "1"], cwd=repo, capture_output=True, text=True, env=_env())
    if r.returncode != 0:
        return None
    for p in json.loads(r.stdout)["packages"]:
        if p["name"] == name:
            return os.path.join(os.path.dirname(p["manifest_path"]), "src")
    return None


def ensure_proto(repo=None):
    """run E3 on the current tree; returns path of the schema json."""
    repo = repo or REPO
    build_tools()
    h = tree_hash(repo)
    d = os.path.join(CACHE, "facts", h, "proto")
    out = os.path.join(d, "schema-%s.json" % _proto_tool_hash())
    if os.path.exists(out):
        return out
    with _Lock("proto.lock"):
        if os.path.exists(out):
            return out
        os.makedirs(d, exist_ok=True)
        tmp = out + ".tmp.%d" % os.getpid()
        refdir = reference_crate_dir(repo, "osmosis-std")
        r = subprocess.run([PROTO, repo, tmp] + ([refdir] if refdir else []), capture_output=True, text=True, env=_env(), cwd=repo)
        if r.returncode != 0:
            raise FactError("protoschema failed:\n" + r.stderr[-4000:])
        os.rename(tmp, out)
        return out


if __name__ == "__main__":
    for c in sys.argv[1:] or ["default"]:
        t = time.time()
        if c == "proto":
            print(ensure_proto(), round(time.time() - t, 1))
        else:
            print(ensure(c), round(time.time() - t, 1))
