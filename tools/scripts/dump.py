#!/usr/bin/env python3
"""debug helper: pretty-print bodies from the fact files.  usage: dump.py [config] <substring>..."""
import sys, json, os
sys.path.insert(0, os.path.dirname(os.path.dirname(os.path.dirname(os.path.abspath(__file__)))))
from engine import facts
from engine.mir import Program
def pl(p): return p['s']
def op(o):
    if 'c' in o: return 'copy '+pl(o['c'])
    if 'm' in o: return 'move '+pl(o['m'])
    if 'k' in o: return json.dumps(o['k'])
    return str(o)
def rv(r):
    if 'use' in r: return op(r['use'])
    if 'ref' in r: return ('&mut ' if r['mut'] else '&')+pl(r['ref'])
    if 'agg' in r:
        if r['agg'] in('adt',): return r['adt']+'::'+r['variant']+'{'+', '.join(k+': '+op(v) for k,v in r['fields'].items())+'}'
        if r['agg']=='closure': return 'closure '+r['closure']+'{'+', '.join(k+': '+op(v) for k,v in r['fields'].items())+'}'
        return r['agg']+'['+', '.join(op(x) for x in r['elems'])+']'
    if 'bin' in r: return r['bin']+'('+op(r['a'])+', '+op(r['b'])+')'
    if 'discr' in r: return 'discr '+pl(r['discr'])+' '+str(r.get('variants'))
    if 'cast' in r: return 'cast '+op(r['a'])+' as '+r['ty']
    if 'un' in r: return r['un']+'('+op(r['a'])+')'
    return json.dumps(r)
def dump(b):
    print('BODY',b['key'],b.get('captures'),[ (x['name'],x['place']['s']) for x in b['debug']])
    for i,blk in enumerate(b['blocks']):
        if blk['cleanup']: continue
        for s in blk['stmts']:
            print(f"  bb{i}: {pl(s['place'])} = {rv(s['rv']) if 'rv' in s else s}   @{s['span']['line']}")
        t=blk['term']
        if t['k']=='call':
            print(f"  bb{i}: CALL {pl(t['dest'])} = {t.get('rkey') or t['callee']}({', '.join(op(a) for a in t['args'])}) -> bb{t['target']}   [{t.get('resolved')}] @{t['span']['line']}")
        elif t['k']=='switch':
            print(f"  bb{i}: SWITCH {op(t['on'])} {t['targets']} else {t['otherwise']}")
        elif t['k'] in ('goto','drop','assert'):
            print(f"  bb{i}: {t['k']} -> bb{t['target']} {t.get('what','')}")
        else: print(f"  bb{i}: {t['k']}")
args=sys.argv[1:]
cfg='default'
if args and args[0] in ('default','miniwasm'): cfg=args.pop(0)
P=Program(facts.ensure(cfg))
for k,b in P.bodies.items():
    if any(a in k for a in args) and 'promoted' not in k:
        dump(b.j)
