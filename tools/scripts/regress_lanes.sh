#!/bin/bash
# Parallel form of regress.sh.  Fact extraction is serialised per cache directory (one shared cargo target
# directory), and the fact cache keeps 96 trees, so a full regression (about 575 modified trees) is bound by
# ~4 extractions a minute.  This script runs L lanes, each with a private cache (VERIF_CACHE) under
# $VERIF_SCRATCH (default /tmp), removed at the end.  Same three requirements as regress.sh:
#   controls FIRE on their property, equivalents are SILENT on all 20 checks, seeded changes FIRE on their property.
# usage: tools/scripts/regress_lanes.sh [L]      (prints NOT-OK lines; exit 1 if there is one)
cd "$(dirname "$0")/../.."
L=${1:-8}
S=${VERIF_SCRATCH:-/tmp}
W=$(mktemp -d -p "$S" vlanes-XXXXXX)
python3 - "$W/jobs.txt" <<'PY'
import importlib.util, os, glob, sys
V = os.getcwd()
def load(n):
    spec = importlib.util.spec_from_file_location(n, os.path.join(V, "mutants", n + ".py")); m = importlib.util.module_from_spec(spec); spec.loader.exec_module(m); return m
ALL = " ".join("C%02d" % i for i in range(1, 21))
jobs = ["silent %s" % m["id"] for m in load("equiv").EQUIV]
jobs += ["silent %s %s" % (p, ALL) for p in sorted(glob.glob(os.path.join(V, "mutants", "equiv_patches", "*.diff")))]
jobs += ["fired %s" % m["id"] for m in load("defs").MUTANTS if not m["id"].startswith("q")]
for d in sorted(glob.glob(os.path.join(V, "seeded", "C*", ""))):
    n = os.path.basename(d.rstrip("/")); jobs.append("fired %spatch.diff %s" % (d, n.split("-")[0]))
open(sys.argv[1], "w").write("\n".join(jobs) + "\n")
PY
lane() {
  k=$1; export VERIF_CACHE="$W/cache-$k"; mkdir -p "$VERIF_CACHE"; i=0
  while IFS= read -r line; do
    if [ $((i % L)) -eq "$k" ]; then
      want=${line%% *}; args=${line#* }
      python3 tools/scripts/mutate.py $args 2>/dev/null | grep -v WARNING | awk -v w="$want" '{ if ($3!=w) print "NOT-OK want="w, $1,$2,$3,$5; else ok++ } END { print "ok", ok+0 }' | sed "s|^|$args :: |" | cut -c1-260
    fi
    i=$((i+1))
  done < "$W/jobs.txt" > "$W/lane-$k.log" 2>&1
}
for k in $(seq 0 $((L-1))); do lane "$k" & done
wait
cat "$W"/lane-*.log | grep -c " :: ok " | sed 's/^/trees with every check as required: /'
bad=$(cat "$W"/lane-*.log | grep -c "NOT-OK")
cat "$W"/lane-*.log | grep "NOT-OK"
rm -rf "$W"
[ "$bad" -eq 0 ]
