#!/usr/bin/env python3
"""re-run all 20 checks (static analysis only) against every kept seeded change with the CURRENT
checkers, update seeded/<name>/meta.json (caught_by, caught_by_target_property) and write seeded/README.md"""
import json, os, sys, importlib.util
from concurrent.futures import ThreadPoolExecutor
VERIF = os.path.dirname(os.path.dirname(os.path.dirname(os.path.abspath(__file__))))
spec = importlib.util.spec_from_file_location("mutate", os.path.join(VERIF, "tools", "scripts", "mutate.py")); mu = importlib.util.module_from_spec(spec); spec.loader.exec_module(mu)
ALL = ["C%02d" % i for i in range(1, 21)]
sd = os.path.join(VERIF, "seeded")
names = sorted(n for n in os.listdir(sd) if os.path.exists(os.path.join(sd, n, "meta.json")))
def one(n):
    return n, mu.run_checks(os.path.join(sd, n, "patch.diff"), ALL, name=n)
rows = []
with ThreadPoolExecutor(max_workers=int(os.environ.get("VERIF_JOBS", "4"))) as ex:
    for n, res in ex.map(one, names):
        mp = os.path.join(sd, n, "meta.json")
        meta = json.load(open(mp))
        caught = {r["id"]: r["rules"] for r in res if r["status"] == "fired"}
        meta["caught_by"] = caught
        meta["caught_by_target_property"] = meta["property"] in caught
        meta.pop("checks_fired", None)
        json.dump(meta, open(mp, "w"), indent=1)
        notes = os.path.join(sd, n, "NOTES.md")
        first = ""
        if os.path.exists(notes):
            for l in open(notes):
                l = l.strip()
                if l and not l.startswith("#"):
                    first = l
                    break
        rows.append((n, meta["property"], meta["verdict"], caught, first))
        print(n, "target" if meta["caught_by_target_property"] else "OTHER", {k: v for k, v in caught.items()})
with open(os.path.join(sd, "README.md"), "w") as fh:
    fh.write("# Independently seeded breaking changes\n\nEach directory holds a change written by a sub-agent that saw only the property text and a scratch worktree of /repo\n(nothing from /verif): `patch.diff` (the source change), `demo.rs` (an integration test that fails with the change and passes\nwithout it), `NOTES.md` (the author's notes), `meta.json` (what was run here: patch applies, the repository's own 107-test suite is green\nwith the change, the demonstration passes on the unchanged tree and fails with the change, and which checks and rules report it).\nAll were confirmed with `tools/scripts/seed_eval.py`; `tools/scripts/seed_refresh.py` re-runs the checks and rewrites this table.\nNone of these changes is ever applied to /repo.\n\n")
    fh.write("| change | breaks | confirmed | reported by its property's check | all checks that report it (rules) |\n|---|---|---|---|---|\n")
    for n, p, v, caught, first in rows:
        fh.write("| %s | %s | %s | %s | %s |\n" % (n, p, v, "yes" if p in caught else "**no**", "; ".join("%s (%s)" % (k, ", ".join(r_ for r_ in v2 if r_.startswith("C"))) for k, v2 in sorted(caught.items())) or "**none**"))
    fh.write("\n%d changes, %d reported by at least one check, %d by the check of the property they were written against.\n" % (len(rows), len([r for r in rows if r[3]]), len([r for r in rows if r[1] in r[3]])))
