"""C07 Outbound IBC transfers are tracked and recovered without loss or duplication."""
from .common import *
from . import shared, C02
from .shared import agg_field, same
from engine.analysis import storage_ops_deep, must_pass, aggregates, inline_walk, aggregates_deep, resolve_terms

CRATE = "staking"
INFLIGHT_WRITERS = {"reply": "records the sent packet", "sudo": "ack / timeout callbacks", "RecoverPendingIbcTransfers": "removes what it re-sends", "migrate": "layout migration 1.0.0 -> 1.1.0"}
WAITING_WRITERS = {"LiquidStake": "stake + optional LST delivery", "ReceiveRewards": "restake", "RecoverPendingIbcTransfers": "re-send", "reply": "consumes the record", "migrate": "layout migration"}
STATUSES = ["Sent", "AckSuccess", "AckFailure", "TimedOut"]


def run(R, env):
    prog = env.prog("default")
    R.rule("C07.R1", "single gate: MsgTransfer is constructed in one function; its only callers wrap it as SubMsg{reply_on: Always, id} and, on every success path, save IBC_WAITING_FOR_REPLY[id] = {amount, receiver} with the same id / amount / receiver that went into the message; the save refuses an occupied key; every wrapper call's SubMsg is in the Response")
    R.rule("C07.R2", "every transfer: memo = {\"ibc_callback\":\"<contract>\"}; timeout_timestamp = block.time.nanos() + IBC_TIMEOUT; source_channel = configured channel; sender = contract; port 'transfer'")
    R.rule("C07.R3", "reply: success only if the sub-message result is Ok with data that decodes; then INFLIGHT_PACKETS[seq] = {sequence: seq, amount and receiver of the waiting record of msg.id, status: Sent} is saved and that waiting record removed, both on every success path; no other write")
    R.rule("C07.R4", "ack / timeout: for another channel or an unknown sequence no storage write is reachable; success ack: the only write is remove(sequence); failed ack / timeout: the only write is save(sequence, loaded packet with only status := AckFailure | TimedOut)")
    R.rule("C07.R5", "permissionless recovery selects, through the pagination helper over INFLIGHT_PACKETS, exactly the packets with receiver == validated receiver and status in {AckFailure, TimedOut} (truth table over the 2 x 4 domain)")
    R.rule("C07.R6", "forced recovery: admin only (C08.R2); every selected packet is loaded from INFLIGHT_PACKETS and a receiver mismatch is an error exit")
    R.rule("C07.R7", "same denom: packets[1..] are compared with packets[0].amount.denom, a mismatch is an error exit, before the summation")
    R.rule("C07.R8", "recover removes what it sums and re-sends that sum to the same receiver through the gate (C02.R4)")
    R.rule("C07.R9", "INFLIGHT_PACKETS / IBC_WAITING_FOR_REPLY are written only from the reviewed sites; every INFLIGHT_PACKETS.save(k, p) has k identical by origin to p.sequence")
    R.assume("agreement of the re-sent amount with what the bank actually refunded is not decided (no bank statically)")
    R.assume("sudo and reply are callable only by the chain; a failing reply rolls back the whole transaction (CosmWasm, reply_on: Always)")
    sites = shared.site_contexts(prog, CRATE, env)
    # ------------------------------------------------------------ R1 / R2
    makers = {}
    for b in prog.fn_bodies(CRATE):
        for bi, si, t in aggregates(Ctx(b), lambda adt, var: adt.endswith("transfer::v1::MsgTransfer")):
            makers[b.key] = (b, bi, si, t)
    R.ob("C07.R1", "one-MsgTransfer-constructor", len(makers) == 1, "MsgTransfer is constructed in %s" % sorted(makers), fn="staking")
    wrappers = {}
    for b in prog.fn_bodies(CRATE):
        for bi, si, t in aggregates(Ctx(b), lambda adt, var: adt.endswith("cosmwasm_std::SubMsg")):
            wrappers[b.key] = (b, bi, si, t)
    # (the SubMsg may also be built with cosmwasm_std's constructors: SubMsg::reply_always(msg, id) & co.)
    CTOR_REPLY = {"reply_always": "Always", "reply_on_success": "Success", "reply_on_error": "Error", "new": "Never", "reply_never": "Never"}
    for b in prog.fn_bodies(CRATE):
        cb_ = Ctx(b)
        for bi, t_, args_ in call_sites(cb_, lambda nm: nm.startswith("cosmwasm_std::SubMsg::") and nm.split("::")[-1] in CTOR_REPLY):
            meth = (call_name(t_) or "").split("::")[-1]
            flds = (("fld", "msg", args_[0]),) + ((("fld", "id", args_[1]),) if len(args_) > 1 else (("fld", "id", ("const", "int", 0)),)) + (("fld", "reply_on", ("agg", "cosmwasm_std::ReplyOn", CTOR_REPLY[meth], ())),)
            wrappers.setdefault(b.key, (b, bi, len(b.blocks[bi]["stmts"]), ("agg", "cosmwasm_std::SubMsg", "SubMsg", flds)))
    # who calls the constructor(s)
    for mk in makers:
        callers = set()
        for b in prog.fn_bodies(CRATE):
            for bi, t in b.calls():
                if t.get("rkey") == mk:
                    callers.add(b.key)
        R.ob("C07.R1", "constructor-called-only-by-wrapper", mk in wrappers or (callers and callers <= set(wrappers)), "%s is called from %s; SubMsg wrappers are %s (a caller outside them sends an untracked transfer)" % (mk, sorted(callers), sorted(wrappers)), fn=mk)
    R.floor("C07.R1", "SubMsg wrappers", len(wrappers), 1)
    for wk, (b, bi, si, t) in wrappers.items():
        c = Ctx(b)
        ro = agg_field(t, "reply_on")
        R.ob("C07.R1", "wrapper:reply_on=Always", ro is not None and ro[0] == "agg" and ro[2] == "Always", "reply_on = %s: a failed submission would not roll back / a success would not be recorded" % fmt(ro or ("none",)), loc=b.loc(bi, si), fn=wk)
        msg = agg_field(t, "msg")
        mc = shared.unwrap_payload(msg) if msg is not None else ("none",)
        is_maker = mc[0] == "call" and shared._body_of_call(prog, mc) is not None and shared._body_of_call(prog, mc).key in makers
        # the transfer may also be built in the wrapper itself
        own = mc[0] == "agg" and mc[1].endswith("transfer::v1::MsgTransfer") and wk in makers
        R.ob("C07.R1", "wrapper:msg-is-the-transfer", is_maker or own, "SubMsg.msg = %s; expected the MsgTransfer built by the single constructor" % fmt(msg or ("none",))[:120], loc=b.loc(bi, si), fn=wk)
        sid = agg_field(t, "id")
        if not (is_maker or own):
            continue
        trs_ = shared.transfers(prog, c, env)
        if len(trs_) != 1:
            R.ob("C07.R1", "wrapper:one-transfer", False, "the wrapper builds %d transfers" % len(trs_), fn=wk)
            continue
        recv = trs_[0]["receiver"]
        tok_amt, tok_den = trs_[0]["amount"], trs_[0]["denom"]
        ws = [o for o in storage_ops_deep(prog, c, env.depth) if o["kind"] == "w"]
        wsave = [o for o in ws if ns_of(prog, o["args"][0]) == "ibc_waiting_for_reply" and o["op"] == "save"]
        R.ob("C07.R1", "wrapper:write-set", len(ws) == 1 and len(wsave) == 1, "storage writes in the wrapper: %s; expected exactly one IBC_WAITING_FOR_REPLY.save" % [(ns_of(prog, o["args"][0]), o["op"]) for o in ws], fn=wk)
        for o in wsave:
            k, v = o["args"][2], o["args"][3]
            R.ob("C07.R1", "wrapper:record-key==submsg-id", same(k, sid), "waiting record saved under %s but SubMsg.id = %s" % (fmt(k)[:100], fmt(sid)[:100]), loc=o["loc"], fn=wk)
            v = shared.written_agg(prog, o)
            ra, rd = shared.coin_parts(agg_field(v, "amount") or ("none",), 0, prog) if v[0] == "agg" else (None, None)
            good = v[0] == "agg" and ra is not None and tok_amt is not None and same(ra, tok_amt) and same(rd, tok_den) and recv is not None and same(agg_field(v, "receiver"), recv)
            R.ob("C07.R1", "wrapper:record==message", good, "waiting record %s vs message (receiver %s, amount %s)" % (fmt(v)[:160], fmt(recv or ("none",))[:60], fmt(tok_amt or ("none",))[:60]), loc=o["loc"], fn=wk)
            R.ob("C07.R1", "wrapper:record-on-every-success-path", must_pass(c, o["root_bb"]), "the wrapper can return the SubMsg without recording it", loc=o["loc"], fn=wk)
        # occupied key refused: in the context where the save lives, the save block is unreachable when may_load(key) is Some
        for cc, path in inline_walk(prog, c, env.depth):
            for o in [o for o in __import__("engine.analysis", fromlist=["storage_ops"]).storage_ops(cc) if o["kind"] == "w" and ns_of(prog, o["args"][0]) == "ibc_waiting_for_reply" and o["op"] == "save"]:
                key = o["args"][2]
                pred = lambda t, key=key: t[0] == "payload" and shared.unwrap_payload(t)[0] == "call" and shared.unwrap_payload(t)[1].endswith("Map::may_load") and ns_of(prog, shared.unwrap_payload(t)[2][0]) == "ibc_waiting_for_reply" and same(shared.unwrap_payload(t)[2][2], key)
                rem, n = world_edges(cc, pred, True)
                w = cc.with_removed(rem).settle()
                R.worlds += 1
                R.ob("C07.R1", "wrapper:occupied-key-refused", n >= 1 and o["bb"] not in w.T.reach, "IBC_WAITING_FOR_REPLY.save can overwrite an existing record (tests of may_load(key): %d)" % n, loc=o["loc"], fn=cc.body.key)
    # wrapper call sites reach the Response
    ncs = 0
    for site, c in sites.items():
        for bi, t in c.body.calls():
            if t.get("rkey") in wrappers and bi in c.T.reach:
                ncs += 1
                want = norm(c.T.call_term(t, bi))
                inresp = any(any(norm(s_) == want for s_ in subterms(term)) for _, term in success_terms(c))
                R.ob("C07.R1", "callsite:%s:submsg-in-response" % site, inresp, "a tracked transfer is recorded but its SubMsg never reaches the Response", loc=c.body.loc(bi), fn=c.body.key)
    R.floor("C07.R1", "wrapper call sites in handlers", ncs, 4)
    for mk, (b, bi, si, t) in makers.items():
        memo = agg_field(t, "memo")
        fl = [f for f in prog.formats if f["crate"] == CRATE and f["file"] == b.span["file"] and f["pieces"] and f["pieces"][0].get("lit", "").startswith('{"ibc_callback"') and b.span["line"] <= f["line"] <= b.span["line"] + 40]
        pieces = [p.get("lit", "{%s}" % p.get("arg")) for p in fl[0]["pieces"]] if fl else None
        margs = [s_[2][0] for s_ in subterms(memo) if s_[0] == "call" and s_[1].endswith("Argument::new_display")] if memo is not None else []
        R.ob("C07.R2", "memo", pieces == ['{"ibc_callback":"', "{0}", '"}'] and len(margs) == 1 and is_contract_addr(margs[0]), "memo template %s with arguments %s" % (pieces, [fmt(a)[:60] for a in margs]), loc=b.loc(bi, si), fn=mk)
        to = fold(agg_field(t, "timeout_timestamp") or ("none",))
        sums = [s_ for s_ in subterms(to) if s_[0] == "bin" and s_[1] == "Add"]
        okt = len(sums) == 1 and ((is_block_nanos(sums[0][2]) and _is_timeout_const(prog, sums[0][3])) or (is_block_nanos(sums[0][3]) and _is_timeout_const(prog, sums[0][2])))
        R.ob("C07.R2", "timeout", okt, "timeout_timestamp = %s; expected block.time.nanos() + IBC_TIMEOUT.nanos()" % fmt(to)[:200], loc=b.loc(bi, si), fn=mk)
        ch = agg_field(t, "source_channel")
        R.ob("C07.R2", "channel", ch is not None and loaded_field(prog, ch, "config", ["protocol_chain_config", "ibc_channel_id"], CRATE), "source_channel = %s" % fmt(ch or ("none",))[:100], loc=b.loc(bi, si), fn=mk)
        R.ob("C07.R2", "sender", is_contract_addr(agg_field(t, "sender") or ("none",)), "sender = %s" % fmt(agg_field(t, "sender") or ("none",))[:80], loc=b.loc(bi, si), fn=mk)
        R.ob("C07.R2", "port", agg_field(t, "source_port") == ("const", "str", "transfer"), "source_port = %s" % fmt(agg_field(t, "source_port") or ("none",)), loc=b.loc(bi, si), fn=mk)
    # ------------------------------------------------------------ R3 reply
    rc = sites.get("reply")
    if rc is None:
        R.ob("C07.R3", "reply:exists", False, "no reply entry point", fn="staking::contract::reply")
    else:
        rk = rc.body.key
        res = lambda t: t[0] == "field" and t[2] == "result" and is_param_of_type(t[1], "Reply")
        from engine.analysis import success_exits as _se3, forms as _forms3
        found = []
        G = Guard("result-ok", subject=lambda s: False, variant=lambda subj, names: ({"Ok"} if res(subj) else None))
        ok, off = guarded(rc, G, prog, env.depth, found)
        # (or, evaluated as a world: with msg.result = Err(..) no success exit is reachable, wherever the
        # result is classified — in the handler or in a helper such as Submission::from_reply(msg.result))
        w_err = rc.assume_variant(res, "Err").settle()
        R.worlds += 1
        ok = ok or not _se3(w_err)
        R.ob("C07.R3", "reply:failed-submission-is-an-error", ok, "reply can succeed for a failed sub-message: %s" % (off,), fn=rk, found=found)
        data = lambda t: t[0] == "field" and t[2] == "data" and t[1][0] == "payload" and res(t[1][1])
        G = Guard("data-some", subject=lambda s: False, variant=lambda subj, names: ({"Some"} if data(subj) else None))
        found = []
        ok, off = guarded(rc, G, prog, env.depth, found)
        w_nodata = rc.assume((res, ("variant", "Ok")), (data, ("variant", "None"))).settle()
        R.worlds += 1
        ok = ok or not _se3(w_nodata)
        R.ob("C07.R3", "reply:missing-data-is-an-error", ok, "reply can succeed without response data: %s" % (off,), fn=rk, found=found)
        dec = lambda s: any(x[0] == "call" and x[1].endswith("Message::decode") for x in subterms(s)) and s[0] == "call"
        found = []
        ok, off = guarded(rc, Guard("decodes", subject=dec), prog, env.depth, found)
        w_undec = rc.assume((res, ("variant", "Ok")), (data, ("variant", "Some")), (dec, ("ok", False))).settle()
        w_good = rc.assume((res, ("variant", "Ok")), (data, ("variant", "Some")), (dec, ("ok", True))).settle()
        R.worlds += 2
        ok = ok or (not _se3(w_undec) and bool(_se3(w_good)))
        R.ob("C07.R3", "reply:undecodable-data-is-an-error", ok, "reply can succeed when the response does not decode: %s" % (off,), fn=rk, found=found)
        ws = [o for o in storage_ops_deep(prog, rc, env.depth) if o["kind"] == "w"]
        kinds = sorted((ns_of(prog, o["args"][0]), o["op"]) for o in ws)
        R.ob("C07.R3", "reply:write-set", kinds == [("ibc_waiting_for_reply", "remove"), ("inflight", "save")], "writes in reply: %s" % kinds, fn=rk)
        rid = lambda t: t[0] == "field" and t[2] == "id" and is_param_of_type(t[1], "Reply")
        waiting = lambda t: t[0] == "payload" and shared.unwrap_payload(t)[0] == "call" and shared.unwrap_payload(t)[1].endswith(("Map::load", "Map::may_load")) and ns_of(prog, shared.unwrap_payload(t)[2][0]) == "ibc_waiting_for_reply" and rid(shared.unwrap_payload(t)[2][2])
        any_form = lambda x, pred_: x is not None and any(pred_(f_) for f_ in _forms3(prog, x, 3))
        for o in ws:
            ns = ns_of(prog, o["args"][0])
            R.ob("C07.R3", "reply:%s-on-every-success-path" % ns, must_pass(rc, o["root_bb"]), "reply can succeed without this write", loc=o["loc"], fn=rk)
            if ns == "ibc_waiting_for_reply":
                R.ob("C07.R3", "reply:removes-record-of-msg.id", rid(o["args"][2]), "removes key %s" % fmt(o["args"][2])[:80], loc=o["loc"], fn=rk)
            if ns == "inflight":
                k, v = o["args"][2], shared.written_agg(prog, o)
                # (the decoded sequence / the waiting record may come out of helpers: judged on their value forms)
                seq_ok = any_form(k, lambda f_: f_[0] == "field" and f_[2] == "sequence" and f_[1][0] == "payload" and shared.unwrap_payload(f_[1])[0] == "call" and shared.unwrap_payload(f_[1])[1].endswith("Message::decode"))
                good = v[0] == "agg" and same(agg_field(v, "sequence"), k) and seq_ok
                am, rv_ = agg_field(v, "amount"), agg_field(v, "receiver")
                good = good and any_form(am, lambda f_: f_[0] == "field" and f_[2] == "amount" and waiting(f_[1])) and any_form(rv_, lambda f_: f_[0] == "field" and f_[2] == "receiver" and waiting(f_[1]))
                st = agg_field(v, "status")
                good = good and st is not None and st[0] == "agg" and st[2] == "Sent"
                R.ob("C07.R3", "reply:packet-record", good, "in-flight record %s under key %s; expected {sequence: decoded seq, amount/receiver of the waiting record of msg.id, status: Sent} under that seq" % (fmt(v)[:200], fmt(k)[:80]), loc=o["loc"], fn=rk)
    # ------------------------------------------------------------ R4 ack / timeout
    sc = sites.get("sudo")
    n_cb = 0
    if sc is None:
        R.ob("C07.R4", "sudo:exists", False, "no sudo entry point", fn="staking::contract::sudo")
    else:
        from engine.analysis import dispatch_table
        dct, dtab = dispatch_table(prog, sc.body.key, "IBCLifecycleComplete")
        sudo_msg = lambda t_: t_[0] in ("param", "field", "payload", "variant") and any(s_[0] == "param" and len(s_) > 3 and "SudoMsg" in (s_[3] or "") for s_ in subterms(t_))
        merged = None
        if not any(e["handler"] for e in dtab.values()):
            # one handler for both callbacks (`let SudoMsg::IBCLifecycleComplete(event) = msg; receive_lifecycle_event(deps, event)`):
            # it is analysed once per variant, in the world where the event is that variant
            from engine.analysis import must_pass as _mp0
            for bi_, t_, a_ in call_sites(dct, lambda nm: True):
                cb_ = prog.body(t_.get("rkey") or "")
                if cb_ is not None and cb_.kind == "fn" and any("IBCLifecycleComplete" in (cb_.local_ty(i_) or "") for i_ in range(1, cb_.nargs + 1)) and any(sudo_msg(x_) for x_ in a_):
                    merged = (bi_, t_, cb_)
            if merged is not None:
                vs_ = [v_["name"] for k_, a_ in prog.adts.items() if k_.endswith("IBCLifecycleComplete") for v_ in a_.get("variants", [])]
                dtab = {v_: {"handler": [(merged[0], merged[1])], "merged": True} for v_ in vs_}
        for vname, e in sorted(dtab.items()):
            if not e["handler"]:
                continue
            arm_ = {"calls": e["handler"], "handlers": [t_.get("rkey") for _, t_ in e["handler"]]}
            if not arm_["handlers"][0] or prog.body(arm_["handlers"][0]) is None:
                continue
            # the callback is always handed to its handler: no success exit of sudo bypasses it (a
            # callback that is acknowledged without being processed is consumed by the chain and lost)
            from engine.analysis import must_pass as _mp
            dw = dct.assume_variant(sudo_msg, vname).settle()
            cbb = e["handler"][0][0]
            R.ob("C07.R4", ("ack" if vname == "IBCAck" else "timeout") + ":always-dispatched", cbb in dw.T.reach and _mp(dw, cbb), "sudo can answer Ok for this callback without handing it to its handler: the ack / timeout is consumed and the packet stays `Sent` (never refundable)", loc=dct.body.loc(cbb), fn=dct.body.key)
            c = handler_ctx(prog, dct, arm_)
            if e.get("merged"):
                c = c.assume_variant(sudo_msg, vname).settle()
            deep = lambda w_: [o for o in storage_ops_deep(prog, w_, env.depth) if o["kind"] == "w"]
            if not [o for o in storage_ops_deep(prog, c, env.depth) if ns_of(prog, o["args"][0]) == "inflight"]:
                continue
            n_cb += 1
            ck = c.body.key
            is_ack = vname == "IBCAck"
            name = "ack" if is_ack else "timeout"
            msgf = lambda t, f: t[0] == "field" and t[2] == f and t[1][0] == "variant"
            chan = lambda t: msgf(t, "channel")
            seq = lambda t: msgf(t, "sequence")
            succ = lambda t: msgf(t, "success")
            cfg_chan = lambda y: loaded_field(prog, y, "config", ["protocol_chain_config", "ibc_channel_id"], CRATE)

            # world: the callback's channel differs from the configured one (every comparison of the
            # two — here or in a helper — takes the value it has for different strings)
            def differ(t):
                rel = cmp_rel(t, chan, cfg_chan)
                if rel is None:
                    return None
                return ("<" in rel) or (">" in rel)

            from engine.analysis import inline_walk as _iw
            n = sum(1 for c_, p_ in _iw(prog, c, 2) for s_ in ([x for bi, atom in c_.atoms() if atom[0] == "bool" for x in subterms(atom[1])] + list(subterms(c_.T.return_term()))) if cmp_rel(s_, chan, cfg_chan) is not None)
            w = c.assume((None, differ)).settle()
            R.worlds += 1
            wr = deep(w)
            R.ob("C07.R4", name + ":other-channel-no-write", n >= 1 and not wr, "a callback for another channel can write %s (channel tests found: %d)" % ([(ns_of(prog, o["args"][0]), o["op"]) for o in wr], n), fn=ck)
            pk = lambda t: t[0] == "payload" and shared.unwrap_payload(t)[0] == "call" and shared.unwrap_payload(t)[1].endswith("Map::may_load") and ns_of(prog, shared.unwrap_payload(t)[2][0]) == "inflight" and seq(shared.unwrap_payload(t)[2][2])
            rem, n = world_edges(c, pk, False)
            w = c.with_removed(rem).settle()
            R.worlds += 1
            wr = deep(w)
            # (not vacuous: the world differs from the unconstrained handler even when the lookup is a combinator, not a branch)
            R.ob("C07.R4", name + ":unknown-sequence-no-write", (n >= 1 or w.T.reach != c.T.reach or len(deep(w)) != len(deep(c))) and not wr, "a callback for an unknown sequence can write %s" % [(ns_of(prog, o["args"][0]), o["op"]) for o in wr], fn=ck)
            loaded_pkt = lambda t: t[0] == "payload" and pk(t[1])
            same_chan = lambda t: (None if differ(t) is None else (not differ(t)))
            worlds = [(True, "success"), (False, "failure")] if is_ack else [(None, "timeout")]
            for val, wn in worlds:
                # the packet is known and the channel is ours
                rem_k, _ = world_edges(c, pk, True)
                w = c.with_removed(rem_k).assume((None, same_chan))
                if val is not None:
                    rem, n = bool_world_edges(w, succ, val)
                    w = w.with_removed(rem)
                    R.ob("C07.R4", "ack:tests-success-flag", n >= 1, "the ack callback never tests the success flag", fn=ck)
                w = w.settle()
                R.worlds += 1
                wr = deep(w)
                if wn == "success":
                    good = len(wr) == 1 and wr[0]["op"] == "remove" and ns_of(prog, wr[0]["args"][0]) == "inflight" and seq(wr[0]["args"][2])
                    R.ob("C07.R4", "ack:success-removes-packet", good, "on a success ack the writes are %s; expected only INFLIGHT_PACKETS.remove(sequence)" % [(ns_of(prog, o["args"][0]), o["op"], fmt(o["args"][2])[:40]) for o in wr], fn=ck)
                else:
                    status = "AckFailure" if is_ack else "TimedOut"
                    good = len(wr) == 1 and wr[0]["wop"] == "save" and ns_of(prog, wr[0]["args"][0]) == "inflight" and seq(wr[0]["args"][2])
                    if good:
                        ds = shared.write_value_alternatives(prog, wr[0], "inflight") or []
                        # `pkt.status = S` and `IBCTransfer { status: S, ..pkt }` are the same delta
                        ed = None
                        if len(ds) == 1:
                            b0, d0 = ds[0]
                            if loaded_pkt(b0):
                                ed = dict(d0)
                            elif b0[0] == "agg":
                                ed = {}
                                for _, n_, v_ in b0[3]:
                                    if not (v_[0] == "field" and v_[2] == n_ and loaded_pkt(v_[1])):
                                        ed[(n_,)] = v_
                                ed.update(d0)
                        if ed is not None and ("status",) in ed and ed[("status",)][0] != "agg":
                            # the status may come out of a helper (`outcome.refundable_status()`): its value in this world
                            from engine.analysis import resolve_terms as _rt7
                            ed[("status",)] = _rt7(prog, ed[("status",)], 2, None, wr[0].get("assumptions", ()))
                        good = ed is not None and set(ed) == {("status",)} and ed[("status",)][0] == "agg" and ed[("status",)][2] == status
                    R.ob("C07.R4", "%s:marks-packet-%s" % (name, status), good, "on %s the writes are %s; expected only save(sequence, loaded packet with status := %s)" % (wn, [(ns_of(prog, o["args"][0]), o["op"], fmt(o["args"][-1])[:120]) for o in wr], status), fn=ck)
        R.floor("C07.R4", "ack/timeout callbacks reached from sudo", n_cb, 2)
    # ------------------------------------------------------------ R5..R8 recover
    h = sites.get("RecoverPendingIbcTransfers")
    if h is None:
        R.ob("C07.R5", "recover:exists", False, "no handler", fn="staking::contract::execute")
    else:
        hk = h.body.key
        rem, n = world_edges(h, shared.selected_packets_pred, False)
        w = h.with_removed(rem).settle()
        R.worlds += 1
        pcalls = []
        for bi, t, args in call_sites(w, lambda nm: True):
            cb = prog.body(t.get("rkey")) if t.get("rkey") else None
            if cb is not None and any(ns_of(prog, a) == "inflight" for a in args if a[0] in ("item",)) and any(s_[0] == "closure" for a in args for s_ in subterms(a)):
                pcalls.append((bi, t, args))
        RECOVER_SHAPE = ["C07.R6", "C07.R7", "C07.R8"]
        deep_scan = []
        if not pcalls:
            # the handler does not scan INFLIGHT_PACKETS through the pagination helper in its own body
            # (selection / summation moved into helpers).  The eligibility filter (R5) is evaluated
            # wherever the scan is (parameters bound); the loop-shape rules R6-R8 model only the
            # in-line idiom and do not decide a restructured handler.  The authorization of forced
            # recovery (R6, world-based) is still decided.
            for c_, p_ in inline_walk(prog, w, 3):
                if not p_:
                    continue
                for bi_, t_, a_ in call_sites(c_, lambda nm: True):
                    if prog.body(t_.get("rkey") or "") is not None and any(ns_of(prog, x) == "inflight" for x in a_ if x[0] == "item") and any(s_[0] == "closure" for x in a_ for s_ in subterms(x)):
                        deep_scan.append((p_[0][1], t_, a_))
                    elif (call_name(t_) or "").endswith("Iterator::filter") and len(a_) == 2 and a_[1][0] == "closure" and any(s_[0] == "call" and s_[1].startswith("cw_storage_plus::Map::") and s_[2] and ns_of(prog, s_[2][0]) == "inflight" for s_ in subterms(a_[0])):
                        # INFLIGHT_PACKETS.range(..)...filter(|p| eligible(p)): the std spelling of the filtered scan
                        deep_scan.append((p_[0][1], t_, a_))
            if deep_scan:
                R.set_undecided(RECOVER_SHAPE, "recover is restructured into helpers; only the in-line selection/summation idiom is modelled")
                pcalls = deep_scan
        R.ob("C07.R5", "recover:uses-filtered-pagination", len(pcalls) == 1, "found %d paginated scans of INFLIGHT_PACKETS with a filter in the permissionless path" % len(pcalls), fn=hk)
        from engine.analysis import forms as _forms5
        for bi, t, args in pcalls:
            clo = args[1] if (call_name(t) or "").endswith("Iterator::filter") else [s_ for a in args for s_ in subterms(a) if s_[0] == "closure"][0]
            # the value the filter compares the packet's receiver with (whatever the capture is called);
            # the element is the packet, or the (key, packet) pair of a raw range scan
            rcv, cc = None, None
            for binding in (("pkt",), ("tuple", (("key",), ("pkt",)))):
                cc = closure_ctx(prog, clo, params={2: binding})
                if cc is not None:
                    pool = [x for _, atom in cc.atoms() for x in subterms(atom[1])] + list(subterms(cc.T.return_term()))
                    for x in list(pool):
                        # (the predicate may be a named helper: `|p| is_recoverable(p, receiver)`)
                        hb_ = prog.body(x[1]) if x[0] == "call" else None
                        if hb_ is not None:
                            sc_ = cc.sub(hb_, params={i_ + 1: a_ for i_, a_ in enumerate(x[2])})
                            pool += [y for _, atom in sc_.atoms() for y in subterms(atom[1])] + list(subterms(sc_.T.return_term()))
                    for x in pool:
                        if x[0] == "call" and x[1] in EQ and len(x[2]) == 2:
                            for u, v in ((x[2][0], x[2][1]), (x[2][1], x[2][0])):
                                if norm(u) == norm(("field", ("pkt",), "receiver")):
                                    rcv = v
                if rcv is not None:
                    break
            rgood = rcv is not None and C02.recover_receiver_ok(prog, rcv)
            R.ob("C07.R5", "recover:filter-receiver-is-validated-receiver", rgood, "the filter compares with %s" % fmt(rcv or ("none",))[:120], loc=h.body.loc(bi), fn=hk)
            table = {}
            okt = cc is not None and rcv is not None
            if okt:
                for match in (True, False):
                    for st in STATUSES:
                        def eqv(x, match=match, st=st):
                            if x[0] == "call" and x[1] in EQ and len(x[2]) == 2:
                                a_, b_ = x[2]
                                if {norm(a_), norm(b_)} == {norm(("field", ("pkt",), "receiver")), norm(rcv)}:
                                    return match if EQ[x[1]] else not match
                                for u, v in ((a_, b_), (b_, a_)):
                                    if norm(u) == norm(("field", ("pkt",), "status")) and v[0] == "agg" and v[1].endswith("PacketLifecycleStatus"):
                                        return (v[2] == st) if EQ[x[1]] else (v[2] != st)
                            return None
                        stv = lambda s_, st=st: (st if norm(s_) == norm(("field", ("pkt",), "status")) else None)
                        ww = cc.assume((None, eqv), (None, ("variantfn", stv))).settle()
                        from engine.analysis import resolve_terms as _rt5
                        rt = ww.T.return_term()
                        if not (rt[0] == "const" and rt[1] == "bool"):
                            v2 = ww._assumed(rt)
                            rt = v2 if v2[0] == "const" else rt
                        table[(match, st)] = rt[2] if rt[0] == "const" and rt[1] == "bool" else fmt(rt)[:60]
                want = {(m_, s_): (m_ and s_ in ("AckFailure", "TimedOut")) for m_ in (True, False) for s_ in STATUSES}
                okt = table == want
            R.ob("C07.R5", "recover:eligibility-truth-table", okt, "filter accepts %s; expected exactly receiver-match x {AckFailure, TimedOut}" % sorted((k, v) for k, v in table.items() if v is not False), loc=h.body.loc(bi), fn=hk)
        # R6 forced
        rem, n = world_edges(h, shared.selected_packets_pred, True)
        wf = h.with_removed(rem).settle()
        R.worlds += 1
        def recv_guard(t):
            if t[0] == "call" and t[1] in EQ:
                a, b = t[2]
                for x, y in ((a, b), (b, a)):
                    if x[0] == "field" and x[2] == "receiver" and x[1][0] == "payload" and shared.unwrap_payload(x[1])[0] == "call" and shared.unwrap_payload(x[1])[1].endswith("Map::load") and ns_of(prog, shared.unwrap_payload(x[1])[2][0]) == "inflight":
                        if (y[0] == "call" and y[1] in ("std::option::Option::unwrap_or", "std::option::Option::unwrap_or_else")) or C02.recover_receiver_ok(prog, y):
                            return EQ[t[1]]
            return None
        found = []
        ok, off = guarded(wf, Guard("same-receiver", boolean=recv_guard), prog, env.depth, found)
        if not ok:
            # iterator spelling: ids.into_iter().map(|id| { let p = load(id)?; if p.receiver != r { return Err } Ok(p) }).collect::<Result<_,_>>()?
            # — the test guards every Ok of the closure that loads the packet, and the collected Result is `?`-propagated
            walked = list(inline_walk(prog, wf, 3))
            for c_, p_ in walked:
                if c_.body.kind != "closure" or not p_:
                    continue
                if not any(o_["op"] == "load" and ns_of(prog, o_["args"][0]) == "inflight" for o_ in __import__("engine.analysis", fromlist=["storage_ops"]).storage_ops(c_)):
                    continue
                f2 = []
                ok2, off2 = guarded(c_, Guard("same-receiver", boolean=recv_guard), prog, 1, f2)
                if not (ok2 and (f2 or _se3(c_))):
                    # (f2 empty: the comparison sits in a nested closure, e.g. `.and_then(|p| check(p))`; not vacuous as
                    # long as the closure can answer Ok when nothing is assumed)
                    continue
                # the closure drives ids.map(closure).collect::<Result<_, _>>() whose Err is propagated: in the
                # handler itself, or in a helper that returns the collected Result and is `?`-ed by the handler
                for pc, pp in walked:
                    drv = [a_ for bi_, t_, a_ in call_sites(pc, lambda nm: nm.endswith("Iterator::map")) if len(a_) == 2 and a_[1][0] == "closure" and a_[1][1] == c_.body.key]
                    if not drv:
                        continue
                    mt_ = norm(("call", "std::iter::Iterator::map", drv[0]))
                    is_coll = lambda s_: s_[0] == "call" and s_[1].endswith("Iterator::collect") and norm(s_[2][0]) == mt_
                    in_atom = any(is_coll(s_) for bi_, atom_ in pc.atoms() for s_ in subterms(atom_[1]))
                    in_ret = pc.body.key != wf.body.key and any(is_coll(s_) for s_ in subterms(pc.T.return_term()))
                    tried = in_ret and any(s_[0] == "call" and s_[1] == pc.body.key for bi_, atom_ in wf.atoms() if atom_[0] == "variant" for s_ in subterms(atom_[1]))
                    if in_atom or tried:
                        ok, off, found = True, None, f2
        R.ob("C07.R6", "recover:forced:receiver-mismatch-is-an-error", ok, "forced recovery can succeed with a selected packet of another receiver: %s" % (off,), fn=hk, found=found)
        loads = [o for o in storage_ops_deep(prog, wf, env.depth) if o["op"] == "load" and ns_of(prog, o["args"][0]) == "inflight"]
        good = len(loads) >= 1 and all(o["args"][2][0] == "payload" and any(shared.selected_packets_pred(s_) for s_ in subterms(o["args"][2])) for o in loads)
        R.ob("C07.R6", "recover:forced:loads-selected-packets", good, "forced recovery does not load exactly the selected ids from INFLIGHT_PACKETS", fn=hk)
        # authorization of the forced path is world-based, not shape-based: always decided
        restructured = bool(deep_scan)
        R.clear_undecided(["C07.R6"])
        shared.forced_recover_admin(R, env, prog, *_arm(prog), "C07.R6")
        if restructured:
            R.set_undecided(["C07.R6"], "recover is restructured into helpers; only the in-line selection/summation idiom is modelled")
        # R7 same denom
        def denom_cmp(t):
            if t[0] == "call" and t[1] in EQ:
                a, b = t[2]
                da = [s_ for s_ in subterms(a) if s_[0] == "call" and s_[1] == "std::ops::Index::index"]
                db = [s_ for s_ in subterms(b) if s_[0] == "call" and s_[1] == "std::ops::Index::index"]
                if a[0] == "field" and a[2] == "denom" and b[0] == "field" and b[2] == "denom" and da and db:
                    idx = [s_[2][1] for s_ in da + db]
                    first = any(const_int(i) == 0 for i in idx)
                    rest = any(i[0] == "agg" and i[1].endswith("RangeFrom") and const_int(agg_field(i, "start")) == 1 for i in idx)
                    if first and rest and norm(da[0][2][0]) == norm(db[0][2][0]):
                        return EQ[t[1]], da[0][2][0]
            return None
        def denom_quant(t):
            # packets.iter().any(|p| p.amount.denom != first.amount.denom) / .all(|p| .. == ..), first = packets[0] / packets.first()
            if not (t[0] == "call" and t[1].split("::")[-1] in ("any", "all") and "Iterator" in t[1] and len(t[2]) == 2 and t[2][1][0] == "closure"):
                return None
            coll = t[2][0]
            res = closure_result(prog, t[2][1], params={2: ("elem",)})
            if res is None or res[0] != "call" or res[1] not in EQ:
                return None
            a_, b_ = res[2]
            for u, v in ((a_, b_), (b_, a_)):
                if norm(u) == norm(("field", ("field", ("elem",), "amount"), "denom")) and v[0] == "field" and v[2] == "denom" and v[1][0] == "field" and v[1][2] == "amount":
                    first = v[1][1]
                    is_first = (first[0] == "payload" and shared.unwrap_payload(first)[0] == "call" and shared.unwrap_payload(first)[1].endswith("slice::first") and norm(shared.unwrap_payload(first)[2][0]) == norm(coll)) or (first[0] == "call" and first[1] == "std::ops::Index::index" and norm(first[2][0]) == norm(coll) and const_int(first[2][1]) == 0)
                    # `let Some((first, others)) = packets.split_first()`: others.iter().all(|p| p.denom == first.denom)
                    def split_of(x_, idx_):
                        if x_[0] == "field" and x_[2] == idx_ and x_[1][0] == "payload":
                            sc_ = shared.unwrap_payload(x_[1])
                            if sc_[0] == "call" and sc_[1].endswith("slice::split_first") and sc_[2]:
                                return sc_[2][0]
                        return None
                    # `let [first, others @ ..] = packets.as_slice()`: the slice-pattern spelling of the same split
                    if not is_first and first[0] == "index" and const_int(first[2]) == 0 and coll[0] == "subslice" and norm(coll[1]) == norm(first[1]) and tuple(coll[2])[:1] == (1,):
                        is_first, coll = True, first[1]
                    P0, P1 = split_of(first, "0"), split_of(coll, "1")
                    if not is_first and P0 is not None and P1 is not None and norm(P0) == norm(P1):
                        is_first, coll = True, P0
                    if is_first:
                        is_any = t[1].split("::")[-1] == "any"
                        if is_any and not EQ[res[1]]:
                            return False, coll   # any(!=) true => mismatch: passing value is False
                        if (not is_any) and EQ[res[1]]:
                            return True, coll    # all(==) true => all equal
            return None
        cmps = [(bi, atom, denom_cmp(atom[1]) or denom_quant(atom[1])) for bi, atom in h.atoms() if atom[0] == "bool" and (denom_cmp(atom[1]) is not None or denom_quant(atom[1]) is not None)]
        if not cmps:
            # the same-denom check fused with the summation in a helper / fold closure (`try_fold(first, |total, p| {
            # ensure!(p.amount.denom == total.denom, ..); total.amount += ..})`): only the in-line check is modelled
            is_denom = lambda x: x[0] == "field" and x[2] == "denom"
            deep_denoms = [1 for c_, p_ in inline_walk(prog, h, 3) if p_ for _, atom in c_.atoms() if atom[0] == "bool" and atom[1][0] == "call" and atom[1][1] in EQ and len(atom[1][2]) == 2 and is_denom(atom[1][2][0]) and is_denom(atom[1][2][1])]
            if deep_denoms:
                R.set_undecided(["C07.R7"], "the same-denom check of recover lives in a helper / fold closure; only the in-line comparison with packets[0] is modelled")
        R.ob("C07.R7", "recover:denom-comparison", len(cmps) == 1, "found %d comparisons of packets[1..].amount.denom with packets[0].amount.denom" % len(cmps), fn=hk)
        for bi, atom, (pol, pk_term) in cmps:
            rej = atom[2][not pol]
            all_err = all(not any(e["kind"] != "err" and e["bb"] in h.body.reachable(h.removed | set((bi, x) for x in atom[2][pol] if x not in rej), start=tg) for e in exits(h)) for tg in rej) if rej else False
            # rejecting edge leads only to error exits: cut the passing edge at this block, no success reachable from here
            c2 = h.with_removed(set((bi, x) for x in atom[2][pol] if x not in rej))
            reach_from = h.body.reachable(c2.removed, start=bi)
            succ = [e for e in exits(h) if e["kind"] != "err" and e["bb"] in reach_from]
            R.ob("C07.R7", "recover:denom-mismatch-is-an-error", not succ, "a denom mismatch does not lead to an error exit", loc=h.body.loc(bi), fn=hk)
            # the summation sums the same collection
            trs = shared.transfers(prog, h, env)
            sums_same = bool(trs) and all(any(norm(s_) == norm(pk_term) for s_ in subterms(t["amount"])) for t in trs if t["amount"] is not None)
            R.ob("C07.R7", "recover:checked-collection-is-the-summed-one", sums_same, "the denom check runs over a different collection than the summation", loc=h.body.loc(bi), fn=hk)
            # the check precedes the summation: the comparison block is not reachable from the add_assign block
            adds = [abi for abi, t_, a_ in call_sites(h, lambda nm: nm.endswith("AddAssign::add_assign") or nm.endswith("Iterator::fold") or nm.endswith("Iterator::sum"))]
            R.ob("C07.R7", "recover:check-precedes-summation", bool(adds) and all(not h.body.reaches(ab, [bi], h.removed) for ab in adds), "the summation can run before the denom check", loc=h.body.loc(bi), fn=hk)
        C02.recover_only(R, env, prog, sites, "C07.R8")
        R.clear_undecided(["C07.R5", "C07.R6", "C07.R7", "C07.R8"])
    # ------------------------------------------------------------ R9
    for ns, table in (("inflight", INFLIGHT_WRITERS), ("ibc_waiting_for_reply", WAITING_WRITERS)):
        who = {}
        for site, c in sites.items():
            for o in storage_ops_deep(prog, c, env.depth):
                if o["kind"] == "w" and ns_of(prog, o["args"][0]) == ns and "migrations::states" not in (storage_item_of(o["args"][0]) or ""):
                    who.setdefault(site, o)
                    if ns == "inflight" and o["op"] == "save":
                        k, v = o["args"][2], shared.written_agg(prog, o)
                        ks = None
                        for base, d in (shared.write_value_alternatives(prog, o, "inflight") or struct_deltas(v)):
                            if base[0] == "agg":
                                ks = agg_field(base, "sequence")
                                if ks is not None and ks[0] == "field" and ks[2] == "sequence" and ks[1][0] == "payload":
                                    # struct-update of the record loaded under key k: its sequence is inherited
                                    lc = shared.unwrap_payload(ks[1])
                                    if lc[0] == "call" and lc[1].endswith(("Map::may_load", "Map::load")) and same(lc[2][2], k):
                                        ks = k
                            elif ("sequence",) not in d and base[0] == "payload":
                                # loaded under key k and sequence untouched: key == record holds inductively
                                lc = shared.unwrap_payload(base)
                                ks = k if (lc[0] == "call" and lc[1].endswith(("Map::may_load", "Map::load")) and same(lc[2][2], k)) else None
                        goodk = ks is not None and (same(ks, k) or site == "migrate")
                        if site == "migrate":
                            # migration keeps the old key and copies the old record's sequence: checked in C18.R4
                            continue
                        R.ob("C07.R9", "key==sequence:" + site, goodk, "INFLIGHT_PACKETS.save(%s, record with sequence %s)" % (fmt(k)[:80], fmt(ks or ("none",))[:80]), loc=o["loc"], fn=o["fn"])
        for site, o in who.items():
            R.ob("C07.R9", "%s-writer:%s" % (ns, site), site in table, "%s is written from %s; reviewed writers %s" % (ns, site, sorted(table)), loc=o["loc"], fn=o["fn"])
        R.floor("C07.R9", "sites writing " + ns, len(who), 4)


def _arm(prog):
    dctx, table = handlers(prog, CRATE)
    return dctx, table["RecoverPendingIbcTransfers"]


def _is_timeout_const(prog, t):
    """Timestamp::nanos(IBC_TIMEOUT) where IBC_TIMEOUT is a const item"""
    return t[0] == "call" and t[1] == "cosmwasm_std::Timestamp::nanos" and t[2][0][0] == "item" and t[2][0][1].endswith("IBC_TIMEOUT")
