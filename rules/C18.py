"""C18 Migrations are version-gated and preserve every value-bearing record."""
import re
from .common import *
from . import shared
from .shared import agg_field, same
from engine.analysis import storage_ops_deep, storage_ops, must_pass, inline_walk, call_sites

# 0.4.20 -> 1.0.0: new leaf <- old leaf (reviewed rename table; identity on same-named leaves otherwise)
RENAMES_1_0_0 = {
    "native_chain_config.validators": "validators",
    "native_chain_config.reward_collector_address": "multisig_address_config.reward_collector_address",
    "native_chain_config.staker_address": "multisig_address_config.staker_address",
    "native_chain_config.unbonding_period": "unbonding_period",
    "protocol_chain_config.ibc_channel_id": "ibc_channel_id",
    "protocol_chain_config.ibc_token_denom": "native_token_denom",
    "protocol_chain_config.minimum_liquid_stake_amount": "minimum_liquid_stake_amount",
    "protocol_chain_config.oracle_address": "oracle_address",
    "protocol_fee_config.dao_treasury_fee": "protocol_fee_config.dao_treasury_fee",
    "liquid_stake_token_denom": "liquid_stake_token_denom",
    "batch_period": "batch_period",
    "stopped": "stopped",
}
MSG_FIELDS_1_0_0 = {
    "native_chain_config.account_address_prefix": ("native_account_address_prefix", "validate_address_prefix"),
    "native_chain_config.validator_address_prefix": ("native_validator_address_prefix", "validate_address_prefix"),
    "native_chain_config.token_denom": ("native_token_denom", None),
    "protocol_chain_config.account_address_prefix": ("protocol_account_address_prefix", "validate_address_prefix"),
}


def gate(R, prog, crate, env):
    key = "%s::contract::migrate" % crate
    b = prog.body(key)
    if b is None:
        R.ob("C18.R1", crate + ":migrate-exists", False, "no migrate entry point", fn=key)
        return None
    c = Ctx(b)
    stored = lambda t: t[0] == "payload" and shared.unwrap_payload(t)[0] == "call" and shared.unwrap_payload(t)[1] == "cw2::get_contract_version"
    name_item = lambda t: t[0] == "item" and t[1].endswith("CONTRACT_NAME")

    def name_guard(t):
        if t[0] == "call" and t[1] in EQ:
            a, b_ = t[2]
            for x, y in ((a, b_), (b_, a)):
                if name_item(x) and y[0] == "field" and y[2] == "contract" and stored(y[1]):
                    return EQ[t[1]]
        return None

    found = []
    ok, off = guarded(c, Guard("same-contract", boolean=name_guard), prog, env.depth, found)
    R.ob("C18.R1", crate + ":name-gate", ok, "migration can succeed for a different stored contract name: %s" % (off,), fn=key, found=found)
    edges = pass_edges(c, Guard("same-contract", boolean=name_guard), prog, env.depth)
    from engine.analysis import fail_world as _fw18
    # (evaluated as a world too: the name test may sit in a helper / closure whose result is `?`-propagated)
    reach = _fw18(c.with_removed(edges), Guard("same-contract", boolean=name_guard)).settle().T.reach
    early = [o for o in storage_ops_deep(prog, c, env.depth) if o["kind"] == "w" and o["root_bb"] in reach] + [bi for bi, t, a in call_sites(c, lambda nm: nm.startswith("cw2::set_contract_version")) if bi in reach]
    R.ob("C18.R1", crate + ":no-write-before-name-gate", not early, "storage is written before / without the contract-name check", fn=key)
    from engine.analysis import forms

    def ver(which):
        # Ok value of <which>.parse::<Version>() — directly or through a local parsing helper
        def f(t):
            if t[0] not in ("payload", "field"):
                return False
            # (also as a component of a small struct built by a helper: `UpgradePath::stored(storage)?.from`)
            return any(tf[0] == "payload" and any(s_[0] == "call" and s_[1] == "core::str::parse" and which(s_[2][0]) for s_ in subterms(tf)) for tf in forms(prog, t, 3 if t[0] == "field" else 2))
        return f

    v_stored = ver(lambda x: x[0] == "field" and x[2] == "version" and stored(x[1]))
    v_new = ver(lambda x: x[0] == "item" and x[1].endswith("CONTRACT_VERSION"))
    out, n = ordering_outcomes(c, v_stored, v_new)
    R.worlds += 3
    R.ob("C18.R1", crate + ":version-gate", n >= 1 and out == {"<": True, "=": False, ">": False}, "success reachable per ordering of (stored version ? new version): %s from %d comparison(s); required: only `<` continues (downgrade and same-version rejected)" % (out, n), fn=key)
    # writes are behind the version comparisons too: in the worlds '=' and '>' no write is reachable
    for o in ("=", ">"):
        w = ordering_world(c, v_stored, v_new, o)
        wr = [x for x in storage_ops_deep(prog, w, env.depth) if x["kind"] == "w"] + [bi for bi, t, a in call_sites(w, lambda nm: nm.startswith("cw2::set_contract_version"))]
        R.ob("C18.R1", "%s:refused-migration-writes-nothing:%s" % (crate, o), not wr, "storage writes reachable although stored version %s new version" % o, fn=key)
    return c


def run(R, env):
    prog = env.prog("default")
    R.rule("C18.R1", "gate (both contracts): every success exit and every storage write of migrate is behind stored name == CONTRACT_NAME; per ordering of (stored ? new) version only `<` continues")
    R.rule("C18.R2", "source version: each MigrateMsg variant reaches exactly one migration function all of whose writes are behind cw2::assert_contract_version(storage, CONTRACT_NAME, V), V = the version spelled in the variant's own name")
    R.rule("C18.R3", "staking: set_contract_version(CONTRACT_NAME, CONTRACT_VERSION) on every success path, after the migration")
    R.rule("C18.R4", "1.0.0 -> 1.1.0: both old maps are read over the full range, a read error is an error exit; each record is saved under the SAME key with sequence <- old.sequence, status <- old.status, amount <- Coin(old.amount, ibc denom), receiver <- staker; old and new maps share their namespace; nothing else is written")
    R.rule("C18.R5", "older paths: 0.4.18 -> 0.4.20 copies every field from the same-named old field (send_fees_to_treasury from the message); 0.4.20 -> 1.0.0 follows the reviewed rename table and validates the supplied prefixes / denom")
    R.assume("crash points: a transaction is atomic (CosmWasm); byte-identity of untouched records = they are not written")
    gate(R, prog, "treasury", env)
    tb = prog.body("treasury::contract::migrate")
    if tb is not None:
        wr = [o for o in storage_ops_deep(prog, Ctx(tb), env.depth) if o["kind"] == "w"]
        R.info("C18.R3", "treasury migrate is a pure gate: it writes nothing (%d writes), not even the new version" % len(wr))
    c = gate(R, prog, "staking", env)
    if c is None:
        return
    key = c.body.key
    # ------------------------------------------------------------ R2
    variants = enum_variants(prog, "staking::msg::MigrateMsg")
    R.floor("C18.R2", "MigrateMsg variants", len(variants), 3)
    arms = {}
    dc, dpath = c, ()
    from engine.analysis import inline_walk
    # the dispatch on the MigrateMsg may sit in migrate itself or in a local helper it calls
    for c_, path_ in inline_walk(prog, c, 2):
        for bi, atom in c_.atoms():
            if atom[0] == "variant" and (atom[3] or "").endswith("MigrateMsg") and not arms:
                dc, dpath = c_, path_
                for v, tgs in atom[2].items():
                    arms[v] = tgs
        if arms:
            break
    migs = {}
    for v in variants:
        R.ob("C18.R2", "dispatched:" + v, v in arms, "variant has no arm in migrate", fn=key)
        if v not in arms:
            continue
        # first local call reachable in the arm
        seen, st, hit = set(), list(arms[v]), []
        while st:
            x = st.pop()
            if x in seen:
                continue
            seen.add(x)
            t = dc.body.blocks[x]["term"]
            if t["k"] == "call" and t.get("rkey") in prog.bodies and prog.bodies[t["rkey"]].kind == "fn" and t.get("local"):
                hit.append((x, t))
                continue
            if t["k"] == "switch" and x not in arms[v]:
                continue
            st.extend(dc.body.succs()[x])
        R.ob("C18.R2", "one-migration:" + v, len(hit) == 1, "variant reaches %d migration functions" % len(hit), fn=key)
        if len(hit) != 1:
            continue
        bb, t = hit[0]
        mb = prog.bodies[t["rkey"]]
        idx = len(dc.body.blocks[bb]["stmts"])
        mc = Ctx(mb, params={i + 1: dc.T.operand(a, bb, idx) for i, a in enumerate(t["args"])})
        migs[v] = (mc, dpath[0][1] if dpath else bb)
        m = re.match(r"V(\d+)_(\d+)_(\d+)To", v)
        want = "%s.%s.%s" % m.groups() if m else None
        seen_v = []

        def subj(s):
            if s[0] == "call" and s[1] == "cw2::assert_contract_version" and len(s[2]) == 3:
                nm, ver = s[2][1], s[2][2]
                val = None
                if ver[0] == "const" and ver[1] == "str":
                    val = ver[2]
                elif ver[0] == "item":
                    ci = prog.const_init(ver[1])
                    val = ci[2] if ci and ci[0] == "const" and ci[1] == "str" else None
                seen_v.append(val)
                return nm[0] == "item" and nm[1].endswith("CONTRACT_NAME") and val == want
            return False

        G = Guard("from-version", subject=subj)
        found = []
        ok, off = guarded(mc, G, prog, env.depth, found)
        central = False
        if not ok and want is not None:
            # the exact-source test may be centralised in migrate: in the world "the message is this
            # variant", the call of the migration function is unreachable unless the stored version
            # string equals the variant's source version (a literal, a constant, or a per-variant
            # method of the message evaluated in that world)
            from engine.analysis import resolve_terms as _rt6, fail_world as _fw
            msgp = lambda t_: t_[0] == "param" and len(t_) > 3 and "MigrateMsg" in (t_[3] or "")
            dw = c.assume_variant(msgp, v)
            stored_v = lambda x: x[0] == "field" and x[2] == "version" and x[1][0] == "payload" and shared.unwrap_payload(x[1])[0] == "call" and shared.unwrap_payload(x[1])[1] == "cw2::get_contract_version"

            def parsed_arg(t_):
                # t_ = Ok value of <s>.parse::<Version>() (directly or through a local parsing helper): s, as this world sees it
                if t_[0] != "payload":
                    return None
                from engine.analysis import forms as _f18
                for tf in _f18(prog, t_, 3, dw.assumptions):
                    ps = [s_ for s_ in subterms(tf) if s_[0] == "call" and s_[1] == "core::str::parse" and s_[2]]
                    if tf[0] == "payload" and len(ps) == 1:
                        return ps[0][2][0]
                return None

            def ver_eq(t_):
                if t_[0] == "call" and t_[1] in EQ and len(t_[2]) == 2:
                    for x, y in ((t_[2][0], t_[2][1]), (t_[2][1], t_[2][0])):
                        px, py = parsed_arg(x), parsed_arg(y)
                        if px is not None and py is not None and stored_v(px):
                            # both sides parsed as versions (`parse(stored.version)? != parse(msg.source_version())?`):
                            # equal exactly when the stored string is that version (semver has one spelling per version)
                            yv = const_str(py) or const_str(_rt6(prog, py, 2, None, dw.assumptions))
                            seen_v.append(yv)
                            if yv == want:
                                return EQ[t_[1]]
                        if stored_v(x):
                            yv = const_str(y)
                            if yv is None:
                                yr = _rt6(prog, y, 2, None, dw.assumptions)
                                yv = const_str(yr)
                            seen_v.append(yv)
                            if yv == want:
                                return EQ[t_[1]]
                return None

            Gc = Guard("from-version(central)", boolean=ver_eq)
            cut = _fw(dw, Gc).settle()
            rootbb = migs[v][1]
            central = rootbb not in cut.T.reach and rootbb in dw.settle().T.reach
            if central:
                ok = True
        R.ob("C18.R2", "source-version:" + v, ok and want is not None, "migration %s can succeed without assert_contract_version(CONTRACT_NAME, \"%s\") (versions asserted: %s)" % (mb.key, want, seen_v), fn=mb.key, found=found)
        edges = pass_edges(mc, G, prog, env.depth)
        reach = mc.with_removed(edges).settle().T.reach
        early = [o for o in storage_ops_deep(prog, mc, env.depth) if o["kind"] == "w" and o["root_bb"] in reach]
        if central:
            early = []  # the whole migration function is behind the centralised test
        R.ob("C18.R2", "no-write-before-version-assert:" + v, not early, "writes %s are reachable without the source-version assertion" % [(ns_of(prog, o["args"][0]), o["op"]) for o in early], fn=mb.key)
    # ------------------------------------------------------------ R3
    sv = [(bi, t, a) for bi, t, a in call_sites(c, lambda nm: nm == "cw2::set_contract_version")]
    if not sv:
        # `migration_result.and_then(|resp| { set_contract_version(..)?; Ok(resp) })`: the version is
        # recorded in a closure that runs only after, and only if, the migration succeeded
        from engine.analysis import inline_walk as _iw2, must_pass as _mp2
        for c_, p_ in _iw2(prog, c, 1):
            if c_.body.kind != "closure" or not p_:
                continue
            inner = [(bi, t, a) for bi, t, a in call_sites(c_, lambda nm: nm == "cw2::set_contract_version")]
            drv = [(bi, a) for bi, t, a in call_sites(c, lambda nm: nm == "std::result::Result::and_then") if len(a) == 2 and a[1][0] == "closure" and a[1][1] == c_.body.key]
            if len(inner) == 1 and len(drv) == 1:
                ibi, it, ia = inner[0]
                good = len(ia) == 3 and ia[1][0] == "item" and ia[1][1].endswith("CONTRACT_NAME") and ia[2][0] == "item" and ia[2][1].endswith("CONTRACT_VERSION")
                R.ob("C18.R3", "records-new-version", True, "recorded in the and_then closure", fn=key)
                R.ob("C18.R3", "version-arguments", good, "set_contract_version(%s, %s)" % (fmt(ia[1]) if len(ia) > 1 else None, fmt(ia[2]) if len(ia) > 2 else None), loc=c_.body.loc(ibi), fn=key)
                R.ob("C18.R3", "on-every-success-path", _mp2(c_, ibi) and _mp2(c, drv[0][0]), "migrate can succeed without recording the new version", loc=c_.body.loc(ibi), fn=key)
                # the closure's receiver is the migration's own result
                recv = drv[0][1][0]
                after = bool(migs) and all(any(s_[0] == "call" and shared._body_of_call(prog, s_) is not None and shared._body_of_call(prog, s_).key == mc_.body.key for s_ in subterms(recv)) for mc_, _ in migs.values())
                R.ob("C18.R3", "after-the-migration", after, "the version is recorded before the migration function runs (its source-version assertion would then fail or be bypassed)", loc=c_.body.loc(ibi), fn=key)
                sv = None
                break
    if sv is None:
        sv = []
    else:
        R.ob("C18.R3", "records-new-version", len(sv) == 1, "found %d set_contract_version calls in migrate" % len(sv), fn=key)
    for bi, t, a in sv:
        good = len(a) == 3 and a[1][0] == "item" and a[1][1].endswith("CONTRACT_NAME") and a[2][0] == "item" and a[2][1].endswith("CONTRACT_VERSION")
        R.ob("C18.R3", "version-arguments", good, "set_contract_version(%s, %s)" % (fmt(a[1]) if len(a) > 1 else None, fmt(a[2]) if len(a) > 2 else None), loc=c.body.loc(bi), fn=key)
        R.ob("C18.R3", "on-every-success-path", must_pass(c, bi), "migrate can succeed without recording the new version", loc=c.body.loc(bi), fn=key)
        after = all(not c.body.reaches(bi, [mbb], c.removed) for (_, mbb) in migs.values())
        R.ob("C18.R3", "after-the-migration", after and bool(migs), "the version is recorded before the migration function runs (its source-version assertion would then fail or be bypassed)", loc=c.body.loc(bi), fn=key)
    # ------------------------------------------------------------ R4
    if "V1_0_0ToV1_1_0" in migs:
        mc, _ = migs["V1_0_0ToV1_1_0"]
        mk = mc.body.key
        ws = [o for o in storage_ops_deep(prog, mc, env.depth) if o["kind"] == "w"]
        nss = sorted(set(ns_of(prog, o["args"][0]) for o in ws))
        R.ob("C18.R4", "write-set", nss == ["ibc_waiting_for_reply", "inflight"] and all(o["op"] == "save" for o in ws), "1.1.0 migration writes %s" % [(ns_of(prog, o["args"][0]), o["op"]) for o in ws], fn=mk)
        staker = lambda t: loaded_field(prog, t, "config", ["native_chain_config", "staker_address"], "staking")
        for o in ws:
            ns = ns_of(prog, o["args"][0])
            k, v = o["args"][2], o["args"][3]
            if any(s_[0] == "call" and prog.body(s_[1]) is not None for s_ in subterms(k)):
                # the old entries may be read by a (generic) loader helper: `load_legacy_entries(storage, &OLD_MAP)?`
                from engine.analysis import resolve_terms as _rt18
                k = _rt18(prog, k, 2)
            # element of the old map's full range
            good_k = k[0] == "field" and k[2] == "0" and k[1][0] == "payload"
            elem = k[1] if good_k else None
            src_ok = False
            old_item = None
            if elem is not None:
                rng = [s_ for s_ in subterms(elem) if s_[0] == "call" and s_[1] == "cw_storage_plus::Map::range"]
                if len(rng) == 1:
                    old_item = storage_item_of(rng[0][2][0])
                    full = rng[0][2][2][0] == "agg" and rng[0][2][2][2] == "None" and rng[0][2][3][0] == "agg" and rng[0][2][3][2] == "None"
                    src_ok = full and ns_of(prog, rng[0][2][0]) == ns and "migrations::states" in (old_item or "")
                    # elem = next(<collected vec>)? with NO adapter (skip/take/filter) in between:
                    # next's argument is exactly the Ok payload of collect(range(..))
                    nx = shared.unwrap_payload(elem)
                    direct = nx[0] == "call" and nx[1].endswith("Iterator::next") and nx[2][0][0] == "payload" and shared.unwrap_payload(nx[2][0])[0] == "call" and shared.unwrap_payload(nx[2][0])[1].endswith("Iterator::collect") and norm(shared.unwrap_payload(nx[2][0])[2][0]) == norm(rng[0])
                    src_ok = src_ok and direct
            # two-pass pipeline: key AND record both come out of one element of a collection that was
            # already converted (neither is built at the save site)
            two_pass = v[0] != "agg" and k[0] == "field" and v[0] == "field" and norm(k[1]) == norm(v[1])
            if two_pass and any(s_[0] == "call" and s_[1] == "cw_storage_plus::Map::range" and "migrations::states" in (storage_item_of(s_[2][0]) or "") and ns_of(prog, s_[2][0]) == ns for s_ in list(subterms(k)) + list(subterms(v))):
                R.set_undecided(["C18.R4"], "the 1.0.0 -> 1.1.0 migration converts the old records in a separate pass (map .. collect) before saving them; only the convert-and-save loop over the old map's range is modelled")
            R.ob("C18.R4", ns + ":same-key-full-range-same-namespace", good_k and src_ok, "new record saved under %s; expected the key of each element of the old map's full range (old item %s, read errors propagated)" % (fmt(k)[:100], old_item), loc=o["loc"], fn=mk)
            old = ("field", elem, "1") if elem is not None else None
            if v[0] != "agg":
                v = shared.written_agg(prog, o)  # a conversion closure / `upgrade()` method is looked through
            if old is None or v[0] != "agg":
                R.ob("C18.R4", ns + ":record", False, "unrecognised record %s" % fmt(v)[:120], loc=o["loc"], fn=mk)
                continue
            from engine.analysis import forms
            # fields that are components of a local helper's result (`..old.upgrade(&defaults).into_transfer(seq)`)
            v = ("agg", v[1], v[2], tuple((k_, n_, shared._head_resolved(prog, x_)) for k_, n_, x_ in v[3]))
            for af in forms(prog, agg_field(v, "amount") or ("none",), 2):
                am, den = shared.coin_parts(af)
                if am is not None and den is not None:
                    break
            good = am is not None and same(am, ("field", old, "amount")) and shared.ibc_denom(prog, den) and staker(agg_field(v, "receiver") or ("none",))
            if ns == "inflight":
                good = good and same(agg_field(v, "sequence"), ("field", old, "sequence")) and same(agg_field(v, "status"), ("field", old, "status"))
            R.ob("C18.R4", ns + ":record", good, "migrated record %s; expected {%samount: Coin(old.amount, ibc denom), receiver: staker}" % (fmt(v)[:260], "sequence: old.sequence, status: old.status, " if ns == "inflight" else ""), loc=o["loc"], fn=mk)
            R.ob("C18.R4", ns + ":loop-covers-all", pair_loop(mc, o), "the save is not executed for every element of the collected range", loc=o["loc"], fn=mk)
        R.clear_undecided(["C18.R4"])
    else:
        R.ob("C18.R4", "path-exists", False, "no V1_0_0ToV1_1_0 migration", fn=key)
    # ------------------------------------------------------------ R5
    if "V0_4_18ToV0_4_20" in migs:
        mc, _ = migs["V0_4_18ToV0_4_20"]
        mk = mc.body.key
        ws = [o for o in storage_ops_deep(prog, mc, env.depth) if o["kind"] == "w"]
        R.ob("C18.R5", "0.4.20:write-set", len(ws) == 1 and ns_of(prog, ws[0]["args"][0]) == "config", "writes: %s" % [(ns_of(prog, o["args"][0]), o["op"]) for o in ws], fn=mk)
        for o in ws:
            v = o["args"][2]
            bad = []
            if v[0] == "agg":
                for _, n, val in v[3]:
                    if n == "send_fees_to_treasury":
                        if not shared.msg_field(val, "V0_4_18ToV0_4_20", "send_fees_to_treasury"):
                            bad.append(n)
                    elif not (val[0] == "field" and val[2] == n and val[1][0] == "payload" and is_load(prog, val[1], "config", "staking") and "v0_4_18" in (storage_item_of(shared.unwrap_payload(val[1])[2][0]) or "")):
                        bad.append(n)
            else:
                bad.append("<not an aggregate>")
            R.ob("C18.R5", "0.4.20:field-map", not bad, "fields not copied from the same-named field of the 0.4.18 config: %s" % bad, loc=o["loc"], fn=mk)
    if "V0_4_20ToV1_0_0" in migs:
        mc, _ = migs["V0_4_20ToV1_0_0"]
        mk = mc.body.key
        ws = [o for o in storage_ops_deep(prog, mc, env.depth) if o["kind"] == "w"]
        R.ob("C18.R5", "1.0.0:write-set", len(ws) == 1 and ns_of(prog, ws[0]["args"][0]) == "config", "writes: %s" % [(ns_of(prog, o["args"][0]), o["op"]) for o in ws], fn=mk)
        oldcfg = lambda t: t[0] == "payload" and is_load(prog, t, "config", "staking") and "v0_4_20" in (storage_item_of(shared.unwrap_payload(t)[2][0]) or "")
        for o in ws:
            v = shared.written_agg(prog, o)
            leaves = {}
            def walk(t, pre):
                if t[0] == "agg" and t[1].startswith("staking::state::"):
                    for _, n, val in t[3]:
                        walk(val, pre + [n])
                else:
                    leaves[".".join(pre)] = t
            walk(v, [])
            # a leaf that is a component of a helper's result (`AddressPrefixes::validate(..)?.native_account`) is the value
            # that helper computes
            leaves = {k_: shared._head_resolved(prog, v_, o.get("assumptions", ())) for k_, v_ in leaves.items()}
            bad = []
            for leaf, val in leaves.items():
                if leaf in RENAMES_1_0_0:
                    src = RENAMES_1_0_0[leaf].split(".")
                    base, path = field_path(val)
                    if not (path == src and oldcfg(base)):
                        bad.append("%s <- %s" % (leaf, fmt(val)[:80]))
                elif leaf in MSG_FIELDS_1_0_0:
                    fld, validator = MSG_FIELDS_1_0_0[leaf]
                    inner = val
                    if validator:
                        okv = val[0] == "payload" and shared.unwrap_payload(val)[0] == "call" and shared.unwrap_payload(val)[1].endswith(validator)
                        inner = shared.unwrap_payload(val)[2][0] if okv else ("none",)
                    if not shared.msg_field(inner, "V0_4_20ToV1_0_0", fld):
                        bad.append("%s <- %s" % (leaf, fmt(val)[:80]))
                elif leaf == "protocol_fee_config.treasury_address":
                    alts = val[1] if val[0] == "phi" else (val,)
                    okt = len(alts) == 2 and any(a[0] == "agg" and a[2] == "None" for a in alts) and any(a[0] == "agg" and a[2] == "Some" and field_path(a[3][0][2])[1] == ["treasury_address"] and oldcfg(field_path(a[3][0][2])[0]) for a in alts)
                    if not okt and val[0] == "call" and val[1].split("::")[-1] == "then_some" and "bool" in val[1] and len(val[2]) == 2:
                        # old.send_fees_to_treasury.then_some(old.treasury_address): Some exactly when the flag is set
                        okt = field_path(val[2][0])[1] == ["send_fees_to_treasury"] and oldcfg(field_path(val[2][0])[0]) and field_path(val[2][1])[1] == ["treasury_address"] and oldcfg(field_path(val[2][1])[0])
                    if not okt:
                        bad.append("%s <- %s" % (leaf, fmt(val)[:80]))
                elif leaf == "monitors":
                    okm = val[0] == "call" and val[1].endswith("unwrap_or_default") and field_path(val[2][0])[1] == ["monitors"] and oldcfg(field_path(val[2][0])[0])
                    if not okm:
                        bad.append("%s <- %s" % (leaf, fmt(val)[:80]))
                else:
                    bad.append("%s (unreviewed leaf)" % leaf)
            def through_helper(txt_leaf):
                val_ = leaves.get(txt_leaf.split(" <- ")[0].split(" (")[0])
                return val_ is not None and any((s_[0] == "call" and (prog.body(s_[1]) is not None or s_[1] in ("std::option::Option::filter", "std::option::Option::then", "std::bool::then", "std::bool::then_some"))) or s_[0] == "closure" for s_ in subterms(val_))
            if bad and all(through_helper(x) for x in bad):
                R.set_undecided(["C18.R5"], "the 0.4.20 -> 1.0.0 migration builds some fields through local helpers / combinators that the field-map rule does not model")
            R.ob("C18.R5", "1.0.0:field-map", not bad and len(leaves) >= 18, "leaves not following the reviewed table: %s (of %d leaves)" % (bad, len(leaves)), loc=o["loc"], fn=mk)
            # treasury Some iff send_fees_to_treasury
            sf = lambda t: field_path(t)[1] == ["send_fees_to_treasury"] and oldcfg(field_path(t)[0])
            for val_, nm in ((True, "Some"), (False, "None")):
                rem, n = bool_world_edges(mc, sf, val_)
                w = mc.with_removed(rem).settle()
                for o2 in [x for x in storage_ops_deep(prog, w, env.depth) if x["kind"] == "w"]:
                    ta = None
                    if o2["args"][2][0] == "agg":
                        pf = agg_field(o2["args"][2], "protocol_fee_config")
                        ta = agg_field(pf, "treasury_address") if pf is not None and pf[0] == "agg" else None
                    if ta is not None and ta[0] != "agg":
                        from engine.analysis import resolve_terms as _rt3
                        ta = _rt3(prog, ta, 2, None, w.assumptions)
                    if ta is None or ta[0] != "agg":
                        R.set_undecided(["C18.R5"], "the migrated treasury_address is computed by a combinator this rule does not model")
                    R.ob("C18.R5", "1.0.0:treasury-%s-iff-send_fees=%s" % (nm, val_), ta is not None and ta[0] == "agg" and ta[2] == nm, "with send_fees_to_treasury=%s the migrated treasury_address is %s" % (val_, fmt(ta or ("none",))[:80]), loc=o2["loc"], fn=mk)
            # the denom supplied is validated before the save
            vd = [bi for bi, t, a in call_sites(mc, lambda nm: nm.endswith("validate_denom")) if a and shared.msg_field(a[0], "V0_4_20ToV1_0_0", "native_token_denom")]
            R.clear_undecided(["C18.R5"])
            R.ob("C18.R5", "1.0.0:denom-validated", bool(vd) and all(dominates_(mc, b, o["root_bb"]) for b in vd), "native_token_denom is stored without validate_denom on every path", loc=o["loc"], fn=mk)


def dominates_(c, a, b):
    if a == b:
        return True
    return b not in c.body.reachable(c.removed, removed_blocks=frozenset([a]))


def pair_loop(mc, o):
    """the save sits in the loop body of the iteration over the collected vector: it lies on every
    path from the loop head's Some edge back to the head."""
    body = mc.body
    key = o["args"][2]
    nexts = [s_ for s_ in subterms(key) if s_[0] == "call" and s_[1].endswith("Iterator::next")]
    if not nexts:
        return False
    if o.get("path") and o["path"][-1][2] == "closure":
        # closure form: the save sits in the closure given to for_each / try_for_each over the
        # collected vector, on every success path of that closure (an Err aborts the migration)
        from engine.analysis import must_pass, Ctx as _C
        cb = body.prog.body(o["fn"])
        # the context that creates the closure: the migration function itself or a helper it calls
        from engine.analysis import inline_walk as _iw
        drivers = []
        for c_, p_ in _iw(body.prog, mc, 2):
            if c_.body.key != o["path"][-1][0]:
                continue
            drivers += [(c_, bi, a) for bi, t, a in call_sites(c_, lambda nm: nm.endswith(("Iterator::for_each", "Iterator::try_for_each"))) if len(a) == 2 and a[1][0] == "closure" and a[1][1] == o["fn"] and norm(a[0]) == norm(nexts[0][2][0])]
        if len(drivers) != 1 or cb is None or not must_pass(_C(cb), o["bb"]):
            return False
        # and the driving call is on every success path of its function, which is called on every success path of the migration
        dc_, dbi, _ = drivers[0]
        return must_pass(dc_, dbi) and (len(o["path"]) == 1 or must_pass(mc, o["root_bb"]))
    heads = [bi for bi, t, a in call_sites(mc, lambda nm: nm == "std::iter::Iterator::next") if norm(mc.T.call_term(t, bi)) == norm(nexts[0])]
    if len(heads) != 1:
        return False
    head = heads[0]
    # from the head, without passing the save block, the head must not be reachable again
    r = set()
    for s_ in body.succs()[head]:
        r |= body.reachable(mc.removed, removed_blocks=frozenset([o["root_bb"]]), start=s_)
    return head not in r
