#!/usr/bin/env python3
"""Negative-control runner.  Applies the edits of mutants/defs.py (or a unified diff) to a scratch
copy of /repo outside /repo and /verif, runs the given checks against the copy (static analysis
only — the mutant is never executed unless --tests is given, which runs the repository's own
suite on it) and removes the copy.
usage: mutate.py <mutant-id|file.patch|file.diff> [<ID>...] [--keep] [--tests]
       mutate.py --all [--prop C08] [--tests] [-j N]"""
import os, shutil, subprocess, sys, tempfile, json, importlib.util
from concurrent.futures import ThreadPoolExecutor
VERIF = os.path.dirname(os.path.dirname(os.path.dirname(os.path.abspath(__file__))))
REPO = os.environ.get("VERIF_REPO", "/repo")
SCR = os.environ.get("VERIF_SCRATCH", "/tmp")

def load_defs():
    spec = importlib.util.spec_from_file_location("defs", os.path.join(VERIF, "mutants", "defs.py"))
    mod = importlib.util.module_from_spec(spec); spec.loader.exec_module(mod)
    d = {m["id"]: m for m in mod.MUTANTS}
    d.update(load_equiv())
    return d

def load_equiv():
    spec = importlib.util.spec_from_file_location("equiv", os.path.join(VERIF, "mutants", "equiv.py"))
    mod = importlib.util.module_from_spec(spec); spec.loader.exec_module(mod)
    out = {}
    for m in mod.EQUIV:
        m = dict(m); m["props"] = ["C%02d" % i for i in range(1, 21)]
        out[m["id"]] = m
    return out

def make_scratch(mut):
    d = tempfile.mkdtemp(prefix="vscratch-", dir=SCR)
    subprocess.run(["rsync", "-a", "--exclude", "target", "--exclude", ".git", REPO + "/", d + "/"], check=True)
    if isinstance(mut, str):
        for tool in (["git", "apply", "--whitespace=nowarn", os.path.abspath(mut)], ["patch", "-p1", "-s", "--no-backup-if-mismatch", "-i", os.path.abspath(mut)]):
            r = subprocess.run(tool, cwd=d, capture_output=True, text=True)
            if r.returncode == 0:
                return d, ""
        shutil.rmtree(d, ignore_errors=True)
        return None, (r.stdout + r.stderr).strip()[:300]
    for rel, old, new in mut["edits"]:
        p = os.path.join(d, rel)
        s = open(p).read()
        if s.count(old) != 1:
            shutil.rmtree(d, ignore_errors=True)
            return None, "edit anchor occurs %d times in %s" % (s.count(old), rel)
        open(p, "w").write(s.replace(old, new))
    return d, ""

def run_checks(mut, ids, keep=False, tests=False, name=None):
    name = name or (mut if isinstance(mut, str) else mut["id"])
    d, err = make_scratch(mut)
    if d is None:
        return [{"mutant": name, "id": i, "status": "skipped", "why": "does not apply: " + err} for i in ids]
    res = []
    out = tempfile.mkdtemp(prefix="vout-", dir=SCR)
    try:
        if tests:
            t = subprocess.run(["cargo", "test", "--workspace", "--offline", "--no-fail-fast"], cwd=d, capture_output=True, text=True,
                               env=dict(os.environ, CARGO_NET_OFFLINE="true", CARGO_TARGET_DIR=os.path.join(VERIF, ".cache", "target-tests")))
            out_ = t.stdout + t.stderr
            import re as _re
            fails = _re.findall(r"^test (\S+) \.\.\. FAILED", out_, _re.M) + _re.findall(r"^(error(?:\[E\d+\])?: .*)$", out_, _re.M)[:3]
            res.append({"mutant": name, "id": "tests", "status": "green" if t.returncode == 0 else "RED", "why": ("; ".join(fails) or out_[-300:].replace("\n", " ")) if t.returncode else ""})
        for i in ids:
            env = dict(os.environ, VERIF_REPO=d, VERIF_OUT=out)
            r = subprocess.run([os.path.join(VERIF, "check"), i], cwd=VERIF, capture_output=True, text=True, env=env)
            detail = [l for l in r.stdout.splitlines() if l.startswith("  ")]
            nv = len([l for l in r.stdout.splitlines() if l.startswith("VIOLATION")])
            rules = sorted(set(l.split()[2] for l in detail if len(l.split()) > 2))
            res.append({"mutant": name, "id": i, "status": "fired" if r.returncode == 1 else ("silent" if r.returncode == 0 else "error"), "n": nv, "rules": rules,
                        "why": (detail[0].strip()[:300] if detail else ((r.stdout + r.stderr)[-300:] if r.returncode == 2 else ""))})
    finally:
        shutil.rmtree(out, ignore_errors=True)
        if not keep:
            shutil.rmtree(d, ignore_errors=True)
    return res

if __name__ == "__main__":
    a = [x for x in sys.argv[1:] if not x.startswith("-")]
    flags = [x for x in sys.argv[1:] if x.startswith("-")]
    defs = load_defs()
    jobs = []
    if "--equiv" in flags:
        for m in load_equiv().values():
            jobs.append((m, m["props"]))
        pd = os.path.join(VERIF, "mutants", "equiv_patches")
        for f in sorted(os.listdir(pd)) if os.path.isdir(pd) else []:
            if f.endswith(".diff"):
                jobs.append((os.path.join(pd, f), ["C%02d" % i for i in range(1, 21)]))
    elif "--all" in flags:
        prop = None
        if "--prop" in sys.argv:
            prop = sys.argv[sys.argv.index("--prop") + 1]
            a = [x for x in a if x != prop]
        for m in defs.values():
            if m["id"].startswith("q"):
                continue
            ids = [p for p in m["props"] if prop is None or p == prop]
            if ids:
                jobs.append((m, ids))
    else:
        mut = defs.get(a[0], a[0])
        ids = a[1:] or (mut["props"] if isinstance(mut, dict) else [])
        jobs.append((mut, ids))
    nj = int(sys.argv[sys.argv.index("-j") + 1]) if "-j" in sys.argv else 4
    with ThreadPoolExecutor(max_workers=nj) as ex:
        for rs in ex.map(lambda j: run_checks(j[0], j[1], keep="--keep" in flags, tests="--tests" in flags), jobs):
            for r in rs:
                print("%-44s %-6s %-7s n=%-2s %s %s" % (r["mutant"][:44], r["id"], r["status"], r.get("n", "-"), ",".join(r.get("rules", [])), r["why"][:220]))
