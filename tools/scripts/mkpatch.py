#!/usr/bin/env python3
"""make a unified diff against /repo from exact-string replacements.
usage: mkpatch.py <out.patch> <relfile> <old> <new> [<relfile> <old> <new> ...]   (old must be unique; use @N suffix `old@@2` for the 2nd occurrence)"""
import sys, difflib, os
REPO = "/repo"
out = sys.argv[1]
a = sys.argv[2:]
edits = {}
for i in range(0, len(a), 3):
    edits.setdefault(a[i], []).append((a[i + 1], a[i + 2]))
diff = []
for rel, es in edits.items():
    src = open(os.path.join(REPO, rel)).read()
    new = src
    for old, rep in es:
        occ = 1
        if "@@" in old and old.rsplit("@@", 1)[1].isdigit():
            old, n = old.rsplit("@@", 1)
            occ = int(n)
        cnt = new.count(old)
        if cnt == 0:
            sys.exit("not found in %s: %r" % (rel, old))
        if cnt > 1 and occ == 1 and "@@" not in a[i + 1]:
            sys.exit("ambiguous (%d) in %s: %r" % (cnt, rel, old))
        idx = -1
        for _ in range(occ):
            idx = new.index(old, idx + 1)
        new = new[:idx] + rep + new[idx + len(old):]
    diff += list(difflib.unified_diff(src.splitlines(True), new.splitlines(True), "a/" + rel, "b/" + rel, n=3))
os.makedirs(os.path.dirname(out), exist_ok=True)
open(out, "w").write("".join(diff))
print(out, len(diff), "lines")
