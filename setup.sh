#!/bin/bash
# setup_cmd: build the extractors offline and warm the per-configuration dependency caches.
set -e
cd "$(dirname "$0")"
export CARGO_NET_OFFLINE=true
(cd tools/mirfacts && cargo build --release --offline)
if [ -d tools/protoschema ]; then (cd tools/protoschema && cargo build --release --offline); fi
python3 engine/facts.py default miniwasm
if [ -d tools/protoschema ]; then python3 engine/facts.py proto; fi
echo "setup done"
