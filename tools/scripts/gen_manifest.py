#!/usr/bin/env python3
"""(re)generate /verif/MANIFEST.json from the table below. Run after adding a rule module."""
import json, os
VERIF = os.path.dirname(os.path.dirname(os.path.dirname(os.path.abspath(__file__))))
CLAIMS = json.load(open(os.path.join(VERIF, "tools", "scripts", "claims.json")))
props = [json.loads(l) for l in open(os.path.join(VERIF, "properties.jsonl"))]
checks, na = [], []
for p in props:
    pid = p["id"]
    c = CLAIMS.get(pid)
    if c and c.get("claimed") and os.path.exists(os.path.join(VERIF, "rules", pid + ".py")):
        checks.append({
            "property_id": pid,
            "quick_cmd": "./check %s --tier quick" % pid,
            "thorough_cmd": "./check %s --tier thorough" % pid,
            "evidence_file": "/verif/evidence/%s.json" % pid,
            "replay_cmd_template": "./check %s --explain {path}" % pid,
            "engine": c.get("engine", "mirfacts+rules"),
            "level_claimed": {"category": "other", "text": c["text"], "design_ref": "DESIGN.md section 6, " + pid},
            "level_note": c["note"],
            "technique": c["technique"],
        })
    else:
        na.append({"property_id": pid, "reason": (c or {}).get("na_reason", "no sound static rule built yet for this property (check under construction; see DESIGN.md section 10)")})
m = {
    "version": 1,
    "setup_cmd": "./setup.sh",
    "hooks": {
        "guard": "milkyway_contracts_verif",
        "enable": "none needed: static analysis reads /repo's source through the compiler (RUSTC_WORKSPACE_WRAPPER); no hook or instrumentation exists in /repo",
        "baseline_off_cmd": "cd /repo && cargo test --workspace --no-fail-fast --offline",
        "source_commits": [],
        "add_only": True,
    },
    "engines": [
        {"name": "mirfacts", "path": "tools/mirfacts", "kind_free_text": "rustc_private driver (nightly) run as RUSTC_WORKSPACE_WRAPPER under cargo check: dumps type-checked MIR (resolved callees, field names, constants), ADTs, impls, format templates as JSON facts for both feature configurations", "serves_properties": [c["property_id"] for c in checks]},
        {"name": "rules", "path": "engine/ + rules/", "kind_free_text": "python rule engine over the facts: CFG cut-set dominance, case-split worlds, backward def-use origin terms, who-may tables, comparison truth tables", "serves_properties": [c["property_id"] for c in checks]},
        {"name": "protoschema", "path": "tools/protoschema", "kind_free_text": "syn-based syntax-tree extractor for the generated protobuf bindings and the reference crate", "serves_properties": ["C19", "C20"]},
    ],
    "checks": checks,
    "not_applicable": na,
    "notes": "Technique family: static analysis only. Every check inspects /repo's current working tree (facts are keyed by a content hash of the sources) and never executes contract code. exit 2 = the analysis could not run (no verdict).",
}
json.dump(m, open(os.path.join(VERIF, "MANIFEST.json"), "w"), indent=1)
print("claimed:", [c["property_id"] for c in checks], "n/a:", [n["property_id"] for n in na])
