"""C03 LST supply integrity and exact delivery of minted tokens."""
from .common import *
from . import shared
from .shared import same, agg_field, lst_denom
from engine.analysis import storage_ops_deep, must_pass

CRATE = "staking"
LST_WRITERS = {"instantiate", "LiquidStake", "SubmitBatch", "ResumeContract"}


def run(R, env):
    prog = env.prog("default")
    R.rule("C03.R1", "LiquidStake: M = operand of total_liquid_stake_token +=; the token-factory mint message is {sender: contract, amount: (LST denom, M), mint_to: contract}, on every success path and in the Response")
    R.rule("C03.R2", "LiquidStake delivery: MsgSend{from: contract, to: R, [(LST denom, M)]} on the protocol arm, IBC transfer {receiver: R, (LST denom, M)} on the native arm; R = mint_to.unwrap_or(info.sender); every success path carries one of them")
    R.rule("C03.R3", "SubmitBatch: burn coin = batch_total_liquid_stake of the loaded pending batch = the value subtracted from total_liquid_stake_token; sender and holder = contract")
    R.rule("C03.R4", "State.total_liquid_stake_token changes only from {instantiate, LiquidStake, SubmitBatch, ResumeContract}; LiquidStake emits no value-moving message other than {mint, stake transfer, delivery}")
    R.rule("C03.R5", "LiquidUnstake: the amount added to the pending batch total is the LST payment must_pay(info, liquid_stake_token_denom)")
    R.rule("C03.R6", "refunded outbound LST transfers stay tracked until re-sent: recovery re-sends only the refundable packets of the requested receiver (a refunded LST delivery goes back to the recipient it was minted for and to nobody else), removes exactly what it sums, rejects mixed denoms, and callbacks only mark the contract's own packets (rule bodies of C07.R4 - R8)")
    R.assume("the 39-character sender classification heuristic and the circulating-supply equality over histories are not decided (runtime string lengths / no ledger)")
    sites = shared.site_contexts(prog, CRATE, env)
    if "LiquidStake" not in sites or "SubmitBatch" not in sites or "LiquidUnstake" not in sites:
        R.ob("C03.R1", "handlers", False, "LiquidStake/SubmitBatch/LiquidUnstake not dispatched", fn="staking::contract::execute")
        return
    # ---------------- R1
    h = sites["LiquidStake"]
    hk = h.body.key
    M = None
    for op, alts in shared.state_writes(prog, h, env):
        ms = []
        for base, d in alts or []:
            v = d.get(("total_liquid_stake_token",))
            if v is not None:
                opk, operand = delta_op(v)
                if opk == "+=" and loaded_field(prog, v[1], "state", ["total_liquid_stake_token"], CRATE):
                    ms.append(operand)
                else:
                    ms.append(None)
            else:
                ms.append(None)
        good = bool(ms) and all(m is not None and same(m, ms[0]) for m in ms)
        R.ob("C03.R1", "LiquidStake:lst-total-delta", good, "total_liquid_stake_token is not `+= one mint amount` on every path of the saved state", loc=op["loc"], fn=hk)
        if good:
            M = ms[0]
    R.ob("C03.R1", "LiquidStake:mint-amount-identified", M is not None, "no `total_liquid_stake_token += M` found", fn=hk)
    if M is None:
        return
    isM = lambda t: t is not None and shared.same_any(prog, t, M)
    R.info("C03.R1", "M = " + fmt(M)[:300])
    tfs = shared.tf_messages(prog, h, env)
    mints = [m for m in tfs if m["kind"] == "mint"]
    R.ob("C03.R1", "LiquidStake:one-mint", len(mints) == 1 and len(tfs) == 1, "token-factory messages in LiquidStake: %s" % [m["kind"] for m in tfs], fn=hk)
    for m in mints:
        R.ob("C03.R1", "LiquidStake:mint-amount", isM(m["amount"]), "minted amount is %s, expected M" % fmt(m["amount"] or ("none",))[:160], loc=m["loc"], fn=hk)
        R.ob("C03.R1", "LiquidStake:mint-denom", lst_denom(prog, m["denom"]), "minted denom is %s, expected config.liquid_stake_token_denom" % fmt(m["denom"] or ("none",))[:120], loc=m["loc"], fn=hk)
        R.ob("C03.R1", "LiquidStake:mint-sender-and-holder", m["sender"] is not None and is_contract_addr(m["sender"]) and m["holder"] is not None and is_contract_addr(m["holder"]), "mint sender/holder = %s / %s, expected the contract address" % (fmt(m["sender"] or ("none",))[:80], fmt(m["holder"] or ("none",))[:80]), loc=m["loc"], fn=hk)
        R.ob("C03.R1", "LiquidStake:mint-on-every-success-path", must_pass(h, m["root_bb"]) and shared.response_contains_call_at(h, m["root_bb"]), "the mint message is not in the Response of every success path", loc=m["loc"], fn=hk)
    # ---------------- R2
    sends = shared.find_msgs(prog, h, env.depth, ["bank::v1beta1::MsgSend", "cosmwasm_std::BankMsg"])
    trs = [t for t in shared.transfers(prog, h, env) if lst_denom(prog, t["denom"])]
    R.ob("C03.R2", "LiquidStake:delivery-sites", len(sends) == 1 and len(trs) == 1, "delivery sites: %d bank send(s), %d IBC transfer(s) of the LST denom; expected one of each" % (len(sends), len(trs)), fn=hk)
    deliveries = []
    for c, path, bi, t in sends:
        elems = shared.vec_elems(agg_field(t, "amount") or ("none",)) or []
        amt, den = shared.coin_parts(elems[0]) if len(elems) == 1 else (None, None)
        loc = c.body.loc(bi)
        R.ob("C03.R2", "LiquidStake:protocol-arm:amount", isM(amt), "bank delivery sends %s, expected exactly M" % fmt(amt or ("none",))[:160], loc=loc, fn=hk)
        R.ob("C03.R2", "LiquidStake:protocol-arm:denom", lst_denom(prog, den), "bank delivery denom %s" % fmt(den or ("none",))[:120], loc=loc, fn=hk)
        R.ob("C03.R2", "LiquidStake:protocol-arm:recipient", shared.recipient_term(prog, agg_field(t, "to_address")), "bank delivery goes to %s, expected mint_to.unwrap_or(info.sender)" % fmt(agg_field(t, "to_address") or ("none",))[:160], loc=loc, fn=hk)
        R.ob("C03.R2", "LiquidStake:protocol-arm:from", is_contract_addr(agg_field(t, "from_address") or ("none",)), "bank delivery is sent from %s, expected the contract" % fmt(agg_field(t, "from_address") or ("none",))[:120], loc=loc, fn=hk)
        deliveries.append(norm(t))
    for t in trs:
        R.ob("C03.R2", "LiquidStake:native-arm:amount", isM(t["amount"]), "IBC delivery of the LST carries %s, but the amount minted is M = %s" % (fmt(t["amount"] or ("none",))[:120], fmt(M)[:160]), loc=h.body.loc(t["root_bb"]), fn=hk)
        R.ob("C03.R2", "LiquidStake:native-arm:recipient", shared.recipient_term(prog, t["receiver"]), "IBC delivery goes to %s, expected mint_to.unwrap_or(info.sender)" % fmt(t["receiver"] or ("none",))[:160], loc=h.body.loc(t["root_bb"]), fn=hk)
        deliveries.append(norm(h.T.call_term(h.body.blocks[t["root_bb"]]["term"], t["root_bb"])))
    okp = True
    n = 0
    for bb, term in success_terms(h):
        n += 1
        if not shared.term_in_all_paths(term, lambda s: norm(s) in deliveries):
            okp = False
    R.ob("C03.R2", "LiquidStake:one-delivery-on-every-success-path", okp and n > 0, "a success path of LiquidStake carries neither the bank delivery nor the IBC delivery of the minted tokens", fn=hk)
    # ---- arm selection: which delivery is taken for which recipient (truth table over the three tests)
    vcall = lambda t, pfx: t[0] == "call" and t[1] == "std::result::Result::is_ok" and t[2][0][0] == "call" and shared._body_of_call(prog, t[2][0]) is not None and len(t[2][0][2]) == 2 and shared.recipient_term(prog, t[2][0][2][0]) and loaded_field(prog, t[2][0][2][1], "config", [pfx, "account_address_prefix"], CRATE)
    isP = lambda t: vcall(t, "protocol_chain_config")
    isN = lambda t: vcall(t, "native_chain_config")
    isF = lambda t: t[0] == "call" and t[1] == "std::option::Option::unwrap_or" and shared.msg_field(t[2][0], "LiquidStake", "transfer_to_native_chain") and t[2][1] == ("const", "bool", False)
    from engine.analysis import inline_walk as _iw
    tested = [s_ for c_, p_ in _iw(prog, h, 2) for _, atom in c_.atoms() if atom[0] == "bool" for s_ in subterms(atom[1])]
    seenP = any(isP(s_) for s_ in tested)
    seenN = any(isN(s_) for s_ in tested)
    TABLE = [((True, False, None), "bank"), ((False, True, None), "ibc"), ((True, True, False), "bank"), ((True, True, True), "ibc"), ((False, False, None), "none")]
    flagf = lambda t: shared.msg_field(t, "LiquidStake", "transfer_to_native_chain")
    flagv = lambda t: t[0] == "payload" and flagf(t[1])
    # the same three facts in their other spellings: `matches!(validate_address(..), Ok(_))` (the Ok-ness of the call
    # itself) and `flag == Some(true)`
    vres = lambda t, pfx: t[0] == "call" and shared._body_of_call(prog, t) is not None and len(t[2]) == 2 and shared.recipient_term(prog, t[2][0]) and loaded_field(prog, t[2][1], "config", [pfx, "account_address_prefix"], CRATE)
    isPc = lambda t: vres(t, "protocol_chain_config")
    isNc = lambda t: vres(t, "native_chain_config")

    def flag_eq_true(t):
        if t[0] == "call" and t[1] in EQ and len(t[2]) == 2:
            for x_, y_ in ((t[2][0], t[2][1]), (t[2][1], t[2][0])):
                if flagf(x_) and y_[0] == "agg" and y_[2] == "Some" and y_[3] and y_[3][0][2][:3] == ("const", "bool", True):
                    return EQ[t[1]]
        return None
    WORLDS = []
    for (p_, n_, f_), want in TABLE:
        fv_ = bool(f_)
        base = h.assume_bool(isP, p_).assume_bool(isN, n_).assume_ok(isPc, p_).assume_ok(isNc, n_).assume((None, lambda t, fv_=fv_: (None if flag_eq_true(t) is None else (fv_ == flag_eq_true(t)))))
        if f_ is None:
            WORLDS.append(((p_, n_, f_), want, base))
        elif f_:
            # the flag is Some(true): `unwrap_or(false)` is true, a match on it takes the Some(true) arm
            WORLDS.append(((p_, n_, f_), want, base.assume_bool(isF, True).assume_ok(flagf, True).assume_bool(flagv, True)))
        else:
            # the flag is None or Some(false)
            WORLDS.append(((p_, n_, f_), want, base.assume_bool(isF, False).assume_ok(flagf, False)))
            WORLDS.append(((p_, n_, f_), want, base.assume_bool(isF, False).assume_ok(flagf, True).assume_bool(flagv, False)))
    verdict = {}
    for (p_, n_, f_), want, w in WORLDS:
        w = w.settle(rounds=10)
        R.worlds += 1
        nb = len(shared.find_msgs(prog, w, env.depth, ["bank::v1beta1::MsgSend", "cosmwasm_std::BankMsg"]))
        ni = len([t for t in shared.transfers(prog, w, env) if lst_denom(prog, t["denom"])])
        from engine.analysis import success_exits
        succ = bool(success_exits(w))
        got = "none" if not succ else ("bank" if nb and not ni else "ibc" if ni and not nb else "both" if nb and ni else "neither")
        verdict.setdefault((p_, n_, f_), (want, []))[1].append(got)
    # the recipient is classified by both prefixes: seen as tests in the handler / its helpers, or established by the
    # truth table itself (the worlds differ only in the two validity assumptions and their deliveries differ as required)
    table_ok = all((gots[0] if len(set(gots)) == 1 else "/".join(gots)) == want for (want, gots) in verdict.values())
    R.ob("C03.R2", "LiquidStake:recipient-classified-by-both-prefixes", (seenP and seenN) or table_ok, "the recipient is not tested with validate_address against the protocol prefix (%s) and the native prefix (%s)" % (seenP, seenN), fn=hk)
    for (p_, n_, f_), (want, gots) in verdict.items():
        got = gots[0] if len(set(gots)) == 1 else "/".join(gots)
        R.ob("C03.R2", "LiquidStake:arm:protocol=%s,native=%s,to_native=%s" % (p_, n_, f_), got == want, "recipient valid on protocol chain=%s / native chain=%s, transfer_to_native_chain=%s: delivery is `%s`, expected `%s`" % (p_, n_, f_, got, want), fn=hk)
    # ---------------- R3
    hs = sites["SubmitBatch"]
    sk = hs.body.key
    pending_batch_total = lambda t: t is not None and t[0] == "field" and t[2] == "batch_total_liquid_stake" and is_pending_batch(prog, t[1])
    burns = [m for m in shared.tf_messages(prog, hs, env)]
    R.ob("C03.R3", "SubmitBatch:one-burn", len(burns) == 1 and burns[0]["kind"] == "burn", "token-factory messages in SubmitBatch: %s" % [m["kind"] for m in burns], fn=sk)
    for m in burns:
        R.ob("C03.R3", "SubmitBatch:burn-amount", pending_batch_total(m["amount"]), "burned amount is %s, expected the loaded pending batch's batch_total_liquid_stake" % fmt(m["amount"] or ("none",))[:160], loc=m["loc"], fn=sk)
        R.ob("C03.R3", "SubmitBatch:burn-denom", lst_denom(prog, m["denom"]), "burn denom %s" % fmt(m["denom"] or ("none",))[:100], loc=m["loc"], fn=sk)
        # the miniwasm message has no burn_from field (the holder is the sender; the back-end refuses any other: C19.R1/R4)
        R.ob("C03.R3", "SubmitBatch:burn-sender-and-holder", m["sender"] is not None and is_contract_addr(m["sender"]) and (m["holder"] is None or is_contract_addr(m["holder"])), "burn sender/holder are not the contract", loc=m["loc"], fn=sk)
        R.ob("C03.R3", "SubmitBatch:burn-on-every-success-path", must_pass(hs, m["root_bb"]) and shared.response_contains_call_at(hs, m["root_bb"]), "the burn message is not in the Response of every success path", loc=m["loc"], fn=sk)
    # judged where the batch total is not zero; with a zero total an untouched state is the same stored value
    hs_nz, hs_z = shared.zero_worlds(hs, pending_batch_total)
    R.worlds += 2
    zw = [(o_, [(b_, d_) for b_, d_ in (a_ or []) if ("total_liquid_stake_token",) in d_]) for o_, a_ in shared.state_writes(prog, hs_z, env)]
    for op, alts in shared.state_writes(prog, hs_nz, env) + [(o_, a_) for o_, a_ in zw if a_]:
        good = bool(alts)
        for base, d in alts or []:
            v = d.get(("total_liquid_stake_token",))
            u_ = minus_operand(v, lambda b_: loaded_field(prog, b_, "state", ["total_liquid_stake_token"], CRATE)) if v is not None else None
            if not (u_ is not None and pending_batch_total(u_)):
                good = False
        R.ob("C03.R3", "SubmitBatch:lst-total-delta", good, "total_liquid_stake_token is not reduced by exactly the pending batch total", loc=op["loc"], fn=sk)
    # ---------------- R4
    ch, nops = shared.field_change_sites(prog, env, CRATE, "state", ["total_liquid_stake_token"], sites)
    for site, op in ch.get("total_liquid_stake_token", {}).items():
        R.ob("C03.R4", "lst-total-writer:" + site, site in LST_WRITERS, "State.total_liquid_stake_token may change from %s; reviewed writers %s" % (site, sorted(LST_WRITERS)), loc=op["loc"], fn=op["fn"])
    R.floor("C03.R4", "sites changing total_liquid_stake_token", len(ch.get("total_liquid_stake_token", {})), 4)
    # message sites of LiquidStake: every message-adding builder call's argument is one of the recognised roles
    allowed = set(deliveries)
    for m in mints:
        allowed.add(norm(h.T.call_term(h.body.blocks[m["root_bb"]]["term"], m["root_bb"])))
    for t in shared.transfers(prog, h, env):
        allowed.add(norm(h.T.call_term(h.body.blocks[t["root_bb"]]["term"], t["root_bb"])))
    unknown = []
    for bb, term in success_terms(h):
        for meth, arg in response_calls(term):
            a = norm(arg)
            while a[0] == "payload":
                a = a[1]
            if a in allowed or norm(arg) in allowed:
                continue
            if a[0] == "call" and shared.is_oracle_poster(prog, a):
                continue
            unknown.append(fmt(arg)[:160])
    R.ob("C03.R4", "LiquidStake:message-sites", not unknown, "LiquidStake emits messages outside {mint, oracle, stake transfer, delivery}: %s" % unknown, fn=hk)
    from engine.runner import Remap
    from . import C07
    C07.run(Remap(R, {"C07.R4": "C03.R6", "C07.R5": "C03.R6", "C07.R6": "C03.R6", "C07.R7": "C03.R6", "C07.R8": "C03.R6"}), env)
    # ---------------- R5
    hu = sites["LiquidUnstake"]
    uk = hu.body.key
    n = 0
    for op in storage_ops_deep(prog, hu, env.depth):
        if op["kind"] == "w" and ns_of(prog, op["args"][0]) == "batches" and op.get("wop") == "save":
            n += 1
            alts = shared.write_value_alternatives(prog, op, "batches")
            good = bool(alts)
            for base, d in alts or []:
                v = d.get(("batch_total_liquid_stake",))
                if v is None or not shared.is_stored_base(prog, base, "batches", CRATE):
                    good = False
                    continue
                opk, operand = delta_op(v)
                if not (opk == "+=" and shared.is_paid(prog, operand, ["liquid_stake_token_denom"])):
                    good = False
            R.ob("C03.R5", "LiquidUnstake:batch-total-delta", good, "pending batch total is not `+= must_pay(info, liquid_stake_token_denom)` on every path", loc=op["loc"], fn=uk)
            key = op["args"][2]
            R.ob("C03.R5", "LiquidUnstake:batch-is-pending", is_load(prog, key, "pending_batch_id", CRATE), "batch updated under key %s, expected the pending batch id" % fmt(key)[:120], loc=op["loc"], fn=uk)
    R.floor("C03.R5", "BATCHES read-modify-write in LiquidUnstake", n, 1)


def is_pending_batch(prog, t):
    """Ok payload of BATCHES.load(storage, PENDING_BATCH_ID.load()?)"""
    if t[0] != "payload":
        return False
    c = shared.unwrap_payload(t)
    return c[0] == "call" and c[1] in ("cw_storage_plus::Map::load",) and ns_of(prog, c[2][0]) == "batches" and is_load(prog, c[2][2], "pending_batch_id", CRATE)
