#!/usr/bin/env python3
"""pin the wire schema of the generated bindings (FQN -> tag -> kind/label) from the CURRENT tree.
Run once on a reviewed tree; the baseline is a schema, not source text."""
import json, os, sys
sys.path.insert(0, os.path.dirname(os.path.dirname(os.path.dirname(os.path.abspath(__file__)))))
from engine import facts
from rules.C20 import Schema
d = json.load(open(facts.ensure_proto()))
SC = Schema(d)
out = {}
for fqn, m in sorted(SC.local.items()):
    e = {"kind": m["kind"], "tags": {}}
    for f in m["fields"]:
        for t in f["tags"]:
            e["tags"][t] = [f["kind"], f["label"]] if m["kind"] != "enum" else [f["name"], ""]
    # message-typed fields: the FQN of the type they carry (or ["ext", path] for types outside the bindings)
    refs = {t: (list(r) if isinstance(r, tuple) else r) for t, r in SC.refs(fqn).items()}
    if refs:
        e["refs"] = refs
    out[fqn] = e
p = os.path.join(os.path.dirname(os.path.dirname(os.path.dirname(os.path.abspath(__file__)))), "baselines", "proto_schema.json")
json.dump(out, open(p, "w"), indent=0, sort_keys=True)
print(p, len(out), "types", sum(len(v["tags"]) for v in out.values()), "tags")
