"""C10 Circuit breaker halts all value-moving user operations (DESIGN.md section 6, C10)."""
from .common import *
from . import shared
from engine.analysis import storage_ops_deep

CRATE = "staking"
HALTED = ["LiquidStake", "LiquidUnstake", "SubmitBatch", "Withdraw", "ReceiveRewards", "ReceiveUnstakedTokens"]
# reviewed writer table of Config.stopped (C10.R5): site -> reason
STOPPED_WRITERS = {
    "instantiate": "starts halted",
    "CircuitBreaker": "trips the breaker",
    "ResumeContract": "admin resumes",
    "migrate": "layout migration 0.4.20->1.0.0 copies the stored flag",
}


def halt_guard(prog):
    def boolean(t):
        if loaded_field(prog, t, "config", ["stopped"], CRATE):
            return False  # passing = not stopped
        return None

    return Guard("halt", boolean=boolean)


def run(R, env):
    prog = env.prog("default")
    R.rule("C10.R1", "each of the six value-moving variants: no success exit is reachable once the `stopped == false` edge of a test of CONFIG.load().stopped is cut (inline or through a helper)")
    R.rule("C10.R2", "instantiate saves a Config whose `stopped` field is the constant true")
    R.rule("C10.R3", "CircuitBreaker: the only storage write is CONFIG.save(loaded config with stopped := true); no message is emitted")
    R.rule("C10.R4", "ResumeContract: behind assert_admin; CONFIG.save(loaded config with only stopped := false); STATE.update sets exactly total_native_token, total_liquid_stake_token, total_reward_amount to the message fields of the same names; no other storage write")
    R.rule("C10.R5", "Config.stopped is changed only from the reviewed sites; UpdateConfig and validator changes never write it")
    R.assume("an Err result discards every write and message of the transaction (CosmWasm)")
    dctx, table = handlers(prog, CRATE)
    G = halt_guard(prog)
    n = 0
    for v in HALTED:
        if v not in table or not table[v]["calls"]:
            R.ob("C10.R1", v, False, "variant not dispatched", fn="staking::contract::execute")
            continue
        found = []
        ok, off = arm_guarded(prog, dctx, table[v], G, env.depth, found)
        if ok and not found:
            # decided by evaluating the handler in the halted world (the test is a value, e.g.
            # `(!config.stopped).then_some(()).ok_or(Halted)`): not vacuous as long as the handler can succeed at all
            from engine.analysis import success_exits as _se10
            found = [{"loc": None, "how": "world"}] if _se10(handler_ctx(prog, dctx, table[v])) else []
        n += 1 if (found or ok) else 0
        R.ob("C10.R1", v, ok, "success exit reachable while halted (no test of config.stopped dominates it): %s" % (off,), loc=off[0]["loc"] if off else (found[0]["loc"] if found else None), fn=table[v]["handlers"][0], found=found)
    R.floor("C10.R1", "halt-guarded variants", n, 6)

    # R2
    ictx = Ctx(prog.body("staking::contract::instantiate"))
    k = 0
    for op in storage_ops_deep(prog, ictx, env.depth):
        if op["kind"] == "w" and ns_of(prog, op["args"][0]) == "config":
            k += 1
            alts = shared.write_value_alternatives(prog, op, "config") or []
            good = bool(alts) and all(base[0] == "agg" and shared.agg_field(base, "stopped") == ("const", "bool", True) and not d for base, d in alts)
            R.ob("C10.R2", "instantiate:stopped", good, "Config saved at instantiation has stopped = %s, expected the constant true" % [fmt(shared.agg_field(b, "stopped") or b)[:80] for b, _ in alts], loc=op["loc"], fn="staking::contract::instantiate")
    R.floor("C10.R2", "CONFIG.save in instantiate", k, 1)

    # R3
    if "CircuitBreaker" in table and table["CircuitBreaker"]["calls"]:
        hk = table["CircuitBreaker"]["handlers"][0]
        hctx = handler_ctx(prog, dctx, table["CircuitBreaker"])
        ws = [op for op in storage_ops_deep(prog, hctx, env.depth) if op["kind"] == "w"]
        R.ob("C10.R3", "CircuitBreaker:write-set", len(ws) == 1 and ns_of(prog, ws[0]["args"][0]) == "config", "storage writes: %s, expected exactly one CONFIG.save" % [(ns_of(prog, o["args"][0]), o["op"]) for o in ws], loc=ws[0]["loc"] if ws else None, fn=hk)
        for op in ws:
            if ns_of(prog, op["args"][0]) != "config":
                continue
            alts = shared.write_value_alternatives(prog, op, "config") or []
            good = bool(alts) and all(shared.effective_delta(prog, base, d, "config", CRATE) == {("stopped",): ("const", "bool", True)} for base, d in alts)
            R.ob("C10.R3", "CircuitBreaker:only-stopped", good, "saved config = %s, expected loaded config with only stopped := true" % fmt(op.get("value") or op["args"][2])[:200], loc=op["loc"], fn=hk)
        for bb, t in success_terms(hctx):
            msgs = response_calls(t)
            R.ob("C10.R3", "CircuitBreaker:no-messages", not msgs, "halting emits messages: %s" % [m for m, _ in msgs], loc=hctx.body.loc(bb), fn=hk)
    # R4
    if "ResumeContract" in table and table["ResumeContract"]["calls"]:
        arm = table["ResumeContract"]
        hk = arm["handlers"][0]
        found = []
        ok, off = arm_guarded(prog, dctx, arm, admin_guard(prog, CRATE), env.depth, found)
        R.ob("C10.R4", "ResumeContract:admin", ok, "resume succeeds without assert_admin: %s" % (off,), fn=hk, found=found)
        hctx = handler_ctx(prog, dctx, arm)
        ws = [op for op in storage_ops_deep(prog, hctx, env.depth) if op["kind"] == "w"]
        kinds = sorted((ns_of(prog, o["args"][0]), o["wop"]) for o in ws)
        R.ob("C10.R4", "ResumeContract:write-set", kinds == [("config", "save"), ("state", "save")], "storage writes %s, expected one write of CONFIG and one of STATE" % kinds, fn=hk, loc=ws[0]["loc"] if ws else None)
        for op in ws:
            ns = ns_of(prog, op["args"][0])
            if ns == "config" and op["wop"] == "save":
                alts = shared.write_value_alternatives(prog, op, "config") or []
                good = bool(alts) and all(shared.effective_delta(prog, base, d, "config", CRATE) == {("stopped",): ("const", "bool", False)} for base, d in alts)
                R.ob("C10.R4", "ResumeContract:config-delta", good, "saved config = %s, expected loaded config with only stopped := false" % fmt(op.get("value") or op["args"][2])[:200], loc=op["loc"], fn=hk)
            if ns == "state" and op["wop"] == "save":
                alts = shared.write_value_alternatives(prog, op, "state") or []
                want = {(f,): f for f in ("total_native_token", "total_liquid_stake_token", "total_reward_amount")}
                okd = bool(alts)
                for base, d in alts:
                    d = shared.effective_delta(prog, base, d, "state", CRATE)
                    if d is None or set(d.keys()) != set(want.keys()):
                        okd = False
                        break
                    for path, val in d.items():
                        # value must be the message field of the same name (ABI name), through the dispatcher binding
                        if not (val[0] == "field" and val[2] == want[path] and val[1][0] == "variant" and val[1][2] == "ResumeContract"):
                            okd = False
                R.ob("C10.R4", "ResumeContract:state-delta", okd, "STATE is rewritten as %s; expected stored state with exactly total_native_token/total_liquid_stake_token/total_reward_amount := the message fields of the same names" % fmt(op.get("value") or ("none",))[:300], loc=op["loc"], fn=hk)
    # R5 who writes Config.stopped
    chg, nconf = shared.field_change_sites(prog, env, CRATE, "config", ["stopped"])
    sites = chg.get("stopped", {})
    for site, op in sites.items():
        R.ob("C10.R5", "stopped-writer:" + site, site in STOPPED_WRITERS, "Config.stopped may be changed from %s (%s), not in the reviewed table %s" % (site, op["fn"], sorted(STOPPED_WRITERS)), loc=op["loc"], fn=op["fn"])
    R.floor("C10.R5", "CONFIG write sites inspected", nconf, 6)
    R.floor("C10.R5", "sites that change Config.stopped", len(sites), 3)
