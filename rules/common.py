"""Recognisers shared by the rule modules.

Everything is keyed by names that are part of the contracts' external interface or storage
schema (entry points, message variants, storage namespaces, serialized field names) or by
resolved library callees — never by line numbers, local helper names or source text.
"""
from engine.mir import Terms, subterms, fmt, norm, call_name, strip_generics
from engine.analysis import (
    Ctx,
    Guard,
    guarded,
    pass_edges,
    exits,
    dispatch_table,
    storage_ops,
    storage_item_of,
    reachable_bodies,
    call_sites,
    world_edges,
    variant_world_edges,
    bool_world_edges,
    result_test,
    bool_test,
)

EQ = {"std::cmp::PartialEq::eq": True, "std::cmp::PartialEq::ne": False}


# ------------------------------------------------------------------ storage


def ns_of(prog, term):
    """storage namespace string of a receiver term ('config', 'state', 'admin', 'batches', ...)."""
    it = storage_item_of(term)
    if it is None:
        return None
    if it in prog.consts:
        return prog.storage_namespace(it)
    b = prog.body(it)
    if b is not None:
        rt = Terms(b).return_term()
        for s in subterms(rt):
            if s[0] == "call" and s[1].endswith("::new"):
                for a in s[2]:
                    if a[0] == "const" and a[1] == "str":
                        return a[2]
    return None


def item_crate(term):
    it = storage_item_of(term)
    return it.split("::")[0] if it else None


def is_load(prog, t, ns, crate=None):
    """t is the Ok payload of `<ITEM ns>.load(storage)` (or the unwrapped Some of `may_load(..)?`)."""
    while t[0] in ("payload", "trybranch"):
        t = t[1]
    if t[0] != "call" or not t[1].startswith("cw_storage_plus::") or t[1].split("::")[-1] not in ("load", "may_load"):
        return False
    if ns_of(prog, t[2][0]) != ns:
        return False
    if crate and item_crate(t[2][0]) != crate:
        return False
    return True


def loaded_field(prog, t, ns, path, crate=None, _again=True):
    """t == <ITEM ns>.load()?.a.b.c (path = ['a','b','c']).  A value that went through a local
    helper or through `ITEM.update(..)?` (which returns the stored value with some fields changed)
    is looked through: an unchanged field of it is the loaded field."""
    t0 = t
    for name in reversed(path):
        if t[0] != "field" or t[2] != name:
            return False
        t = t[1]
    if t[0] == "payload" and is_load(prog, t, ns, crate):
        return True
    if _again and t[0] == "payload":
        c = t[1][1] if t[1][0] == "trybranch" else t[1]
        if c[0] == "call" and (c[1].endswith("::update") or prog.body(c[1]) is not None or (len(c) > 3 and c[3] and c[3][2] in prog.bodies)):
            from engine.analysis import resolve_terms
            r = resolve_terms(prog, t0, 2)
            if r != t0:
                return loaded_field(prog, r, ns, path, crate, False)
    return False


def field_path(t):
    """(base, [names]) peeling ('field', base, name) wrappers."""
    names = []
    while t[0] == "field":
        names.append(t[2])
        t = t[1]
    return t, list(reversed(names))


def is_param_of_type(t, tyfrag):
    return t[0] == "param" and len(t) > 3 and tyfrag in (t[3] or "")


def is_sender(t):
    """info.sender of the MessageInfo parameter (through value-preserving conversions)."""
    return t[0] == "field" and t[2] == "sender" and is_param_of_type(t[1], "MessageInfo")


def is_contract_addr(t):
    """env.contract.address"""
    base, path = field_path(t)
    return path == ["contract", "address"] and is_param_of_type(base, "Env")


def is_block_seconds(t):
    """env.block.time.seconds()"""
    if t[0] == "call" and t[1] == "cosmwasm_std::Timestamp::seconds":
        base, path = field_path(t[2][0])
        return path == ["block", "time"] and is_param_of_type(base, "Env")
    return False


def is_block_nanos(t):
    if t[0] == "call" and t[1] == "cosmwasm_std::Timestamp::nanos":
        base, path = field_path(t[2][0])
        return path == ["block", "time"] and is_param_of_type(base, "Env")
    return False


# ------------------------------------------------------------------ closures


def closure_result(prog, cterm, params=None):
    """return term of a closure given as ('closure', key, captures) with parameter bindings
    (closure params start at local 2)."""
    if cterm[0] != "closure":
        return None
    b = prog.body(cterm[1])
    if b is None:
        return None
    caps = {n: v for _, n, v in cterm[2]}
    return Terms(b, captures=caps, params=params).return_term()


def closure_ctx(prog, cterm, params=None):
    if cterm[0] != "closure":
        return None
    b = prog.body(cterm[1])
    if b is None:
        return None
    caps = {n: v for _, n, v in cterm[2]}
    return Ctx(b, params=params, captures=caps)


# ------------------------------------------------------------------ guards


def admin_guard(prog, crate):
    def subj(t):
        return (
            t[0] == "call"
            and t[1] == "cw_controllers::Admin::assert_admin"
            and ns_of(prog, t[2][0]) == "admin"
            and item_crate(t[2][0]) == crate
            and len(t[2]) >= 3
            and is_sender(t[2][2])
        )

    def boolean(t):
        # boolean spellings of the same test: ADMIN.is_admin(deps, &info.sender)? / .unwrap_or(false) /
        # ADMIN.assert_admin(deps, &info.sender).is_ok() / .is_err()
        x = t
        if x[0] == "call" and x[1] == "std::result::Result::unwrap_or" and len(x[2]) == 2 and x[2][1] == ("const", "bool", False):
            x = x[2][0]
        while x[0] in ("payload", "trybranch"):
            x = x[1]
        if x[0] == "call" and x[1] == "cw_controllers::Admin::is_admin" and ns_of(prog, x[2][0]) == "admin" and item_crate(x[2][0]) == crate and len(x[2]) >= 3 and is_sender(x[2][2]):
            return True
        if t[0] == "call" and t[1] in ("std::result::Result::is_ok", "std::result::Result::is_err") and t[2] and subj(t[2][0]):
            return t[1].endswith("is_ok")
        return None

    return Guard("admin", subject=subj, boolean=boolean)


def handlers(prog, crate, entry="execute", enum="ExecuteMsg"):
    """variant -> (handler body key, arm info); plus the dispatcher ctx."""
    r = dispatch_table(prog, "%s::contract::%s" % (crate, entry), enum)
    if r is None:
        return None, {}
    ctx, table = r
    out = {}
    for v, e in table.items():
        hs = [t.get("rkey") for _, t in e["handler"]]
        out[v] = {"handlers": hs, "entry": e["entry"], "switch": e["switch"], "calls": e["handler"], "variant": v, "enum": enum}
    return ctx, out


def enum_variants(prog, path):
    a = prog.adts.get(path)
    if not a:
        return []
    return [v["name"] for v in a["variants"]]


def arm_guarded(prog, dctx, arm, guard, depth, found):
    """is variant `arm` (dispatcher arm + handler) behind `guard`?  Guards placed in the
    dispatcher arm count for the handler they precede."""
    # 1. in the dispatcher, in the world "the message is this variant": cut pass edges, is the handler call still reachable?
    if arm.get("variant"):
        en = arm.get("enum", "ExecuteMsg")
        dctx = dctx.assume_variant(lambda t, en=en: t[0] == "param" and len(t) > 3 and en in (t[3] or ""), arm["variant"])
        dctx.prog = prog
    edges = pass_edges(dctx, guard, prog, depth, found)
    reach = dctx.with_removed(edges).settle().T.reach
    offenders = []
    for bb, t in arm["calls"]:
        if bb not in reach:
            continue
        hb = prog.body(t.get("rkey")) if t.get("rkey") else None
        if hb is None:
            offenders.append({"fn": dctx.body.key, "loc": dctx.body.loc(bb), "kind": "unresolved handler"})
            continue
        idx = len(dctx.body.blocks[bb]["stmts"])
        params = {i + 1: dctx.T.operand(a, bb, idx) for i, a in enumerate(t["args"])}
        ok, off = guarded(dctx.sub(hb, params=params).settle(), guard, prog, depth, found)
        if not ok:
            offenders.append(off)
    return (not offenders), offenders


def handler_ctx(prog, dctx, arm):
    """Ctx of the (single) handler of an arm with parameters bound to the dispatcher's terms."""
    bb, t = arm["calls"][0]
    hb = prog.body(t.get("rkey"))
    idx = len(dctx.body.blocks[bb]["stmts"])
    params = {i + 1: dctx.T.operand(a, bb, idx) for i, a in enumerate(t["args"])}
    v_, enum_ = arm.get("variant"), arm.get("enum")
    if v_ and enum_:
        # an argument the dispatcher computes from the message as a whole, in front of the match
        # (`msg.payment_denom(&config).map(|d| must_pay(&info, d)).transpose()?.unwrap_or_default()`): its value
        # for THIS arm is the helper evaluated where the message is of the arm's variant
        is_msg_ = lambda x: x[0] == "param" and len(x) > 3 and str(x[3]).split("<")[0].endswith(enum_)
        asm_ = ((is_msg_, ("variant", v_)),)
        for i_, a_ in list(params.items()):
            if any(s_[0] == "call" and prog.body(s_[1]) is not None and any(is_msg_(y_) for y_ in s_[2]) for s_ in subterms(a_)):
                from engine.analysis import resolve_terms as _rt_h, contains
                r_ = _rt_h(prog, a_, 3, None, asm_)
                if not contains(r_, lambda s_: s_[0] in ("cycle", "undef")):
                    params[i_] = r_
    # settled: branches decided by the arguments the dispatcher passes (a mode flag, a constant)
    # are pruned, so a handler shared by several variants is analysed once per variant
    return Ctx(hb, params=params).settle()


# ------------------------------------------------------------------ struct deltas (P7)


def _same_type_hint(B, adt):
    """does the term B visibly have the struct type `adt` (parameter type, or the T of the storage read it comes from)?"""
    import re as _re
    name = adt.split("::")[-1]
    x = B
    while x[0] in ("payload", "trybranch"):
        x = x[1]
    hint = None
    if x[0] == "param" and len(x) > 3:
        hint = x[3]
    elif x[0] == "call" and len(x) > 3 and x[3] and x[3][0] == "meta":
        hint = x[3][1]
    elif x[0] == "call" and x[1].startswith("cw_storage_plus::") and x[2] and x[2][0][0] == "item":
        # a read of a storage item (as synthesised for the parameter of an `ITEM.update` closure): the item's value type
        import engine.mir as _m
        ib_ = _m.CURRENT.bodies.get(x[2][0][1]) if _m.CURRENT is not None else None
        hint = (ib_.j.get("ret_ty") or "") if ib_ is not None else None
    elif x[0] == "stored":
        return True
    elif x[0] == "upd" or x[0] == "mut":
        return _same_type_hint(x[1], adt)
    elif x[0] == "phi":
        return all(_same_type_hint(y, adt) for y in x[1])
    return bool(hint) and _re.search(r"(^|[^\w])%s($|[^\w])" % _re.escape(name), hint) is not None


def struct_deltas(t):
    """a value term that is a chain of field updates over a base (`upd`) or a fresh aggregate,
    possibly under phi -> list of (base_term, {field_path_tuple: value_term})."""
    if t[0] == "phi":
        out = []
        for a in t[1]:
            out += struct_deltas(a)
        return out
    d = {}
    chain = []
    while t[0] == "upd":
        chain.append((tuple(t[2]), _as_compound(tuple(t[2]), t[3])))
        t = t[1]
    if t[0] == "phi":
        # updates applied after a merge: distribute
        out = []
        for base, dd in struct_deltas(t):
            dd = dict(dd)
            for path, val in reversed(chain):
                dd[path] = val
            out.append((base, dd))
        return out
    if t[0] == "agg" and t[3]:
        # struct-update syntax `S { f: v, ..old }` (MIR copies every other field from `old`): the same
        # value as `old` with f := v.  Recognised when at least one field is the same field of ONE other value.
        bases = [v[1] for _, n, v in t[3] if v[0] == "field" and v[2] == n]
        if bases and all(b_ == bases[0] for b_ in bases) and not t[1].startswith(("std::", "core::", "alloc::")) and _same_type_hint(bases[0], t[1]):
            B = bases[0]
            for _, n, v in t[3]:
                if v[0] == "field" and v[2] == n and v[1] == B:
                    continue
                d[(n,)] = _as_compound((n,), v)
            t = B
    for path, val in reversed(chain):
        d[path] = val
    return [(t, d)]


_COMPOUND = {"std::ops::Add::add": "std::ops::AddAssign::add_assign", "std::ops::Sub::sub": "std::ops::SubAssign::sub_assign"}


def _as_compound(path, val):
    """`x.f = x.f + y` is the same update as `x.f += y`: present both as the compound form."""
    if val[0] == "call" and val[1] in _COMPOUND and len(val[2]) == 2:
        a, b = val[2]
        for prev, other in ((a, b), (b, a)) if val[1].endswith("add") else ((a, b),):
            alts = prev[1] if prev[0] == "phi" else (prev,)
            if any(field_path(a)[1][-len(path):] == list(path) for a in alts):
                return ("mut", prev, _COMPOUND[val[1]], (other,))
    return val


def delta_op(val, field_base=None):
    """classify a field's new value: (':=', term) | ('+=', term) | ('-=', term)."""
    if val[0] == "mut":
        nm = val[2]
        if nm.endswith("AddAssign::add_assign"):
            return "+=", val[3][0]
        if nm.endswith("SubAssign::sub_assign"):
            return "-=", val[3][0]
        return "mut:" + nm.split("::")[-1], val[3]
    return ":=", val


def response_calls(t, names=("add_message", "add_messages", "add_submessage", "add_submessages")):
    """message-adding builder calls inside a Response term: list of (method, arg term)."""
    out = []
    for s in subterms(t):
        if s[0] == "call" and s[1].startswith("cosmwasm_std::Response::") and s[1].split("::")[-1] in names:
            out.append((s[1].split("::")[-1], s[2][1]))
    return out


def success_terms(ctx):
    return [(e["bb"], e["term"]) for e in exits(ctx) if e["kind"] in ("ok", "other", "delegate")]


def success_terms_deep(prog, ctx, depth=2):
    """the values a handler can return on success, in the handler's vocabulary: a tail call to a local
    function stands for that function's own success values (parameters bound), and helpers that only
    build the Response are inlined"""
    from engine.analysis import resolve_terms
    out = []
    for e in exits(ctx):
        if e["kind"] not in ("ok", "other", "delegate"):
            continue
        t = e["term"]
        cb = prog.body(e["callee"]) if e["kind"] == "delegate" and e.get("callee") else None
        if cb is not None and cb.kind == "fn" and cb.key != ctx.body.key and depth > 0 and t is not None and t[0] == "call":
            sub = ctx.sub(cb, params={i + 1: a for i, a in enumerate(t[2])})
            out += [(e["bb"], x) for _, x in success_terms_deep(prog, sub, depth - 1)]
            continue
        out.append((e["bb"], resolve_terms(prog, t, 2, None, ctx.assumptions) if t is not None else t))
    return out


# ------------------------------------------------------------------ constants (P11) and comparisons (P9)

_BIN = {
    "Add": lambda a, b: a + b,
    "Sub": lambda a, b: a - b,
    "Mul": lambda a, b: a * b,
    "AddWithOverflow": lambda a, b: a + b,
    "SubWithOverflow": lambda a, b: a - b,
    "MulWithOverflow": lambda a, b: a * b,
    "AddUnchecked": lambda a, b: a + b,
    "MulUnchecked": lambda a, b: a * b,
}


_FOLD = {}


def fold(t):
    """constant-fold integer arithmetic over literals; strips the `.0` of checked ops. returns term."""
    from engine.mir import intern
    t = intern(t)
    if not isinstance(t, tuple) or not t:
        return t
    r = _FOLD.get(id(t))
    if r is not None and r[0] is t:
        return r[1]
    out = intern(_fold(t))
    _FOLD[id(t)] = (t, out)
    return out


def _fold(t):
    if t[0] == "item":
        # a named integer constant is its literal
        import engine.mir as _m
        init = _m.CURRENT.const_init(t[1]) if _m.CURRENT is not None else None
        if init is not None:
            init = fold(init)
            if init[0] == "const" and init[1] == "int":
                return init
        return t
    if t[0] == "field" and t[2] == "0" and t[1][0] == "bin" and t[1][1].endswith("WithOverflow"):
        return fold(t[1])
    if t[0] == "bin":
        a, b = fold(t[2]), fold(t[3])
        if a[0] == "const" and b[0] == "const" and a[1] == "int" and b[1] == "int" and t[1] in _BIN:
            return ("const", "int", _BIN[t[1]](a[2], b[2]), a[3] if len(a) > 3 else None)
        return ("bin", t[1].replace("WithOverflow", ""), a, b)
    if t[0] == "call":
        return ("call", t[1], tuple(fold(a) for a in t[2])) + tuple(t[3:])
    if t[0] == "agg":
        return ("agg", t[1], t[2], tuple(("fld", n, fold(v)) for _, n, v in t[3]))
    if t[0] == "payload":
        return ("payload", fold(t[1]), t[2])
    if t[0] == "field":
        return ("field", fold(t[1]), t[2])
    if t[0] == "phi":
        return ("phi", tuple(fold(a) for a in t[1]))
    if t[0] == "upd":
        return ("upd", fold(t[1]), t[2], fold(t[3]))
    if t[0] == "mut":
        return ("mut", fold(t[1]), t[2], tuple(fold(a) for a in t[3])) + tuple(t[4:])
    if t[0] in ("tuple", "array"):
        return (t[0], tuple(fold(a) for a in t[1]))
    return t


def const_str(t):
    """value of a string literal or of a named &str constant"""
    if t[0] == "const" and t[1] == "str":
        return t[2]
    if t[0] == "item":
        import engine.mir as _m
        init = _m.CURRENT.const_init(t[1]) if _m.CURRENT is not None else None
        if init is not None and init[0] == "const" and init[1] == "str":
            return init[2]
    if t[0] == "call" and t[1] in ("std::fmt::format", "alloc::fmt::format") and t[2] and t[2][0][0] == "call" and t[2][0][1].endswith("fmt::Arguments::new") and len(t[2][0][2]) == 2:
        # format!("lit{}lit", <string constants>): the template bytes as the compiler lowered them (a run of literal
        # bytes is prefixed by its length, 0xC0 is the next argument, 0 ends the template) with every argument a
        # string constant shown with Display
        tmpl, arr = t[2][0][2]
        try:
            import json as _j
            bs = _j.loads(_j.loads(tmpl[2])["bytes"]) if tmpl[0] == "const" else None
        except Exception:
            bs = None
        args = list(arr[1]) if arr[0] == "array" else None
        if bs is None or args is None:
            return None
        out, i, ai = "", 0, 0
        while i < len(bs):
            b_ = bs[i]
            if b_ == 0:
                break
            if b_ < 0x80:
                out += bytes(bs[i + 1:i + 1 + b_]).decode("utf-8", "replace")
                i += 1 + b_
            elif b_ == 0xC0 and ai < len(args):
                a_ = args[ai]
                ai += 1
                if not (a_[0] == "call" and a_[1].endswith("Argument::new_display") and a_[2]):
                    return None
                v_ = const_str(a_[2][0])
                if v_ is None:
                    return None
                out += v_
                i += 1
            else:
                return None
        return out
    return None


def const_int(t):
    t = fold(t)
    if t[0] == "const" and t[1] == "int":
        return t[2]
    if t[0] == "call" and t[1] in ("cosmwasm_std::Uint128::zero",):
        return 0
    if t[0] == "item":
        # a named integer constant (`const IBC_DENOM_HASH_LEN: usize = 64;`)
        import engine.mir as _m
        init = _m.CURRENT.const_init(t[1]) if _m.CURRENT is not None else None
        if init is not None and init[0] == "const" and init[1] == "int":
            return init[2]
    return None


_REL = {
    "Lt": {"<"}, "Le": {"<", "="}, "Gt": {">"}, "Ge": {">", "="}, "Eq": {"="}, "Ne": {"<", ">"},
    "std::cmp::PartialOrd::lt": {"<"}, "std::cmp::PartialOrd::le": {"<", "="},
    "std::cmp::PartialOrd::gt": {">"}, "std::cmp::PartialOrd::ge": {">", "="},
    "std::cmp::PartialEq::eq": {"="}, "std::cmp::PartialEq::ne": {"<", ">"},
}
_FLIP = {"<": ">", ">": "<", "=": "="}


def cmp_rel(t, is_x, is_y):
    """if t compares x with y (either order, any operator spelling): the set of orderings of
    (x ? y) in which t is TRUE, e.g. `y <= x` -> {'>', '='}.  None if t is not such a comparison."""
    if t[0] == "call" and t[1] in EQ and len(t[2]) == 2:
        # x.cmp(&y) == Ordering::Less (/ != ..): the comparison spelled through Ord
        for u_, v_ in ((t[2][0], t[2][1]), (t[2][1], t[2][0])):
            if u_[0] == "call" and u_[1] in ("std::cmp::Ord::cmp",) and len(u_[2]) == 2 and v_[0] == "agg" and v_[1].endswith("cmp::Ordering") and v_[2] in ("Less", "Equal", "Greater"):
                o_ = {"Less": "<", "Equal": "=", "Greater": ">"}[v_[2]]
                a, b = u_[2]
                if is_x(a) and is_y(b):
                    r_ = {o_}
                elif is_x(b) and is_y(a):
                    r_ = {_FLIP[o_]}
                else:
                    return None
                return r_ if EQ[t[1]] else ({"<", "=", ">"} - r_)
    if t[0] == "bin" and t[1] in _REL:
        a, b, rel = t[2], t[3], _REL[t[1]]
    elif t[0] == "call" and t[1] in _REL and len(t[2]) == 2:
        a, b, rel = t[2][0], t[2][1], _REL[t[1]]
    else:
        return None
    if is_x(a) and is_y(b):
        return set(rel)
    if is_x(b) and is_y(a):
        return set(_FLIP[r] for r in rel)
    return None


def deadline_guard(name, is_x, is_y, reject_when):
    """Guard for `reject iff (x ? y) in reject_when` (P9): matches a comparison of x and y whose
    truth table is exactly that (or its complement); passing = the non-rejecting truth value."""
    seen = []

    def boolean(t):
        rel = cmp_rel(t, is_x, is_y)
        if rel is None:
            return None
        seen.append(sorted(rel))
        if rel == set(reject_when):
            return False  # term true => reject; pass on false
        if rel == {"<", "=", ">"} - set(reject_when):
            return True
        return None  # a comparison of the right operands with the wrong table: not this guard

    def subject(s_):
        # x.checked_sub(y) is Ok exactly when x >= y: as a test it rejects iff x < y
        if s_[0] == "call" and s_[1].endswith("::checked_sub") and len(s_[2]) == 2:
            a, b = s_[2]
            if is_x(a) and is_y(b):
                seen.append(["checked_sub: >,="])
                return set(reject_when) == {"<"}
            if is_x(b) and is_y(a):
                seen.append(["checked_sub: <,="])
                return set(reject_when) == {">"}
        return False

    g = Guard(name, subject=subject, boolean=boolean)
    g.seen = seen
    return g


def ordering_outcomes(ctx, is_x, is_y):
    """P9, exact form: for each ordering o of (x ? y) build the world in which every comparison of
    x with y — in the body or in a local helper it calls, as an operator, a PartialOrd/PartialEq
    method or a `match x.cmp(&y)` — takes the value it has under o, prune, and report whether a
    success exit is still reachable.  returns ({'<': bool, '=': bool, '>': bool}, number of comparisons)."""
    from engine.analysis import inline_walk, success_exits
    out = {}

    def cmp_call(s_):
        # Ord::cmp(x, y) -> +1 if (x, y), -1 if (y, x)
        if s_[0] == "call" and s_[1] in ("std::cmp::Ord::cmp",) and len(s_[2]) == 2:
            if is_x(s_[2][0]) and is_y(s_[2][1]):
                return 1
            if is_x(s_[2][1]) and is_y(s_[2][0]):
                return -1
        return None

    n = 0
    for c, path in inline_walk(ctx.prog, ctx, 2):
        for bi, atom in c.atoms():
            if atom[0] == "bool" and cmp_rel(atom[1], is_x, is_y) is not None:
                n += 1
            if atom[0] == "variant" and cmp_call(atom[1]) is not None:
                n += 1
    NAMES = {"<": "Less", "=": "Equal", ">": "Greater"}
    for o in ("<", "=", ">"):
        def val(t, o=o):
            rel = cmp_rel(t, is_x, is_y)
            return None if rel is None else (o in rel)

        def ordv(s_, o=o):
            d = cmp_call(s_)
            if d is None:
                return None
            return NAMES[o if d > 0 else _FLIP[o]]

        w = ctx.assume((None, val), (None, ("variantfn", ordv))).settle()
        out[o] = bool(success_exits(w))
    return out, n


def ordering_world(ctx, is_x, is_y, o):
    """the world of ordering_outcomes for one ordering (for rules that inspect what is reachable in it)"""
    NAMES = {"<": "Less", "=": "Equal", ">": "Greater"}

    def val(t):
        rel = cmp_rel(t, is_x, is_y)
        return None if rel is None else (o in rel)

    def ordv(s_):
        if s_[0] == "call" and s_[1] in ("std::cmp::Ord::cmp",) and len(s_[2]) == 2:
            if is_x(s_[2][0]) and is_y(s_[2][1]):
                return NAMES[o]
            if is_x(s_[2][1]) and is_y(s_[2][0]):
                return NAMES[_FLIP[o]]
        return None

    return ctx.assume((None, val), (None, ("variantfn", ordv))).settle()


# ------------------------------------------------------------------ membership tests (idioms)


def seq_equal(prog, t, is_a, is_b, depth=2):
    """is boolean term t true exactly when a == b (values or sequences)?  True / False (for !=) / None.
    Spellings: a == b, a.eq(b), a local helper that returns one of these with its parameters bound, and
    the element-wise form `a.len() == b.len() && a.iter().zip(b).all(|(x, y)| x == y)` (WITHOUT the length
    test the zip form is a common-prefix test, not equality)."""
    from engine.analysis import len_of, cmp_operands
    if t[0] != "call":
        return None
    if t[1] in EQ and len(t[2]) == 2:
        a, b = t[2]
        if (is_a(a) and is_b(b)) or (is_a(b) and is_b(a)):
            return EQ[t[1]]
        return None
    hb = prog.body(t[1])
    if hb is None or hb.kind != "fn" or depth <= 0:
        return None
    ia = [i for i, x in enumerate(t[2]) if is_a(x)]
    ib = [i for i, x in enumerate(t[2]) if is_b(x)]
    if len(ia) != 1 or len(ib) != 1 or ia == ib:
        return None
    A, B = ("seq_a",), ("seq_b",)
    params = {i + 1: x for i, x in enumerate(t[2])}
    params[ia[0] + 1], params[ib[0] + 1] = A, B
    c = Ctx(hb, params=params)
    isA, isB = (lambda x: norm(x) == A), (lambda x: norm(x) == B)

    def len_eq(x):
        co = cmp_operands(x) if x[0] in ("call", "bin") else None
        if co is None:
            return None
        l, r = len_of(co[1]), len_of(co[2])
        if l is None or r is None or not ((isA(l) and isB(r)) or (isA(r) and isB(l))):
            return None
        rel = cmp_rel(x, lambda u: u == co[1], lambda v: v == co[2])
        return True if rel == {"="} else (False if rel == {"<", ">"} else None)

    def zip_all(r):
        if not (r[0] == "call" and r[1].endswith("Iterator::all") and len(r[2]) == 2 and r[2][1][0] == "closure"):
            return False
        z = r[2][0]
        if not (z[0] == "call" and z[1].endswith("Iterator::zip") and len(z[2]) == 2):
            return False
        if not ((isA(z[2][0]) and isB(z[2][1])) or (isA(z[2][1]) and isB(z[2][0]))):
            return False
        res = closure_result(prog, r[2][1], params={2: ("tuple", (("ex",), ("ey",)))})
        return res is not None and res[0] == "call" and res[1] in EQ and EQ[res[1]] and {norm(res[2][0]), norm(res[2][1])} == {("ex",), ("ey",)}

    def step_all(r):
        # x.iter().all(|e| other.next() == Some(e)) with `other` an iterator over the second sequence: the first sequence
        # is a prefix of the second (`all` stops at the first mismatch, `other` has then been advanced once per element)
        if not (r[0] == "call" and r[1].endswith("Iterator::all") and len(r[2]) == 2 and r[2][1][0] == "closure"):
            return None
        x_, caps = r[2][0], [v_ for _, n_, v_ in r[2][1][2]]
        if len(caps) != 1 or not ((isA(x_) and isB(caps[0])) or (isB(x_) and isA(caps[0]))):
            return None
        res = closure_result(prog, r[2][1], params={2: ("ex",)})
        if res is None or res[0] != "call" or res[1] not in EQ or not EQ[res[1]] or len(res[2]) != 2:
            return None
        ops = [norm(res[2][0]), norm(res[2][1])]
        nxt = lambda y: y[0] == "call" and y[1].endswith("Iterator::next") and y[2] and norm(y[2][0]) == norm(caps[0])
        som = lambda y: y[0] == "agg" and y[2] == "Some" and len(y[3]) == 1 and norm(y[3][0][2]) == ("ex",)
        if (nxt(ops[0]) and som(ops[1])) or (nxt(ops[1]) and som(ops[0])):
            return caps[0]
        return None

    stepping = [atom[1] for _, atom in c.atoms() if atom[0] == "bool" and step_all(atom[1]) is not None]
    if len(stepping) == 1:
        other = step_all(stepping[0])
        is_step = lambda x: norm(x) == norm(stepping[0])
        r_f = c.assume((is_step, False)).settle().T.return_term()
        r_t = c.assume((is_step, True)).settle().T.return_term()
        # .. && other.next().is_none(): and the second sequence has nothing left — together, equality
        exhausted = r_t[0] == "call" and r_t[1] == "std::option::Option::is_none" and r_t[2] and r_t[2][0][0] == "call" and r_t[2][0][1].endswith("Iterator::next") and norm(r_t[2][0][2][0]) == norm(other)
        if r_f == ("const", "bool", False) and exhausted:
            return True
        return None
    has_len = any(atom[0] == "bool" and len_eq(atom[1]) is not None for _, atom in c.atoms())
    if has_len:
        f = lambda val: (lambda x: (val if len_eq(x) is True else ((not val) if len_eq(x) is False else None)))
        w_ne = c.assume((None, f(False))).settle()
        w_eq = c.assume((None, f(True))).settle()
        r_ne, r_eq = w_ne.T.return_term(), w_eq.T.return_term()
        if r_ne == ("const", "bool", False) and zip_all(r_eq):
            return True
        return None
    r = c.T.return_term()
    return seq_equal(prog, r, isA, isB, depth - 1)


def eq_closure_of(prog, clo, elem_ok):
    """closure |x| x == <elem> (either order; `!=` gives False): returns True for ==, False for !=, None otherwise"""
    res = closure_result(prog, clo, params={2: ("elem",)}) if clo[0] == "closure" else None
    if res is not None and res[0] == "call" and res[1] not in EQ:
        return seq_equal(prog, res, lambda x: norm(x) == ("elem",), elem_ok)
    if res is None or res[0] != "call" or res[1] not in EQ:
        return None
    a, b = res[2]
    if (a == ("elem",) and elem_ok(b)) or (b == ("elem",) and elem_ok(a)):
        return EQ[res[1]]
    return None


def is_next_elem(x, coll_ok):
    """x = the element produced by advancing an iterator over a collection accepted by coll_ok"""
    if x[0] != "payload":
        return False
    c = x[1][1] if x[1][0] == "trybranch" else x[1]
    return c[0] == "call" and c[1].split("::")[-1] in ("next",) and "Iterator" in c[1] and len(c[2]) >= 1 and coll_ok(c[2][0])


def membership(prog, t, coll_ok, elem_ok):
    """is boolean term t a test of `elem in coll`?  returns True if t is true exactly for members,
    False if t is true exactly for non-members, None if t is not such a test.  Spellings:
    iter().any(|x| x == e), contains(&e), iter().position/find(|x| x == e).is_some()/is_none(),
    iter().all(|x| x != e)."""
    if t[0] != "call":
        return None
    nm = t[1]
    last = nm.split("::")[-1]
    coll_ok0 = coll_ok

    def coll_ok(c_):
        # coll.iter().map(Vec::as_slice) & co.: the same elements seen through a borrow
        while c_[0] == "call" and c_[1].endswith("Iterator::map") and len(c_[2]) == 2 and c_[2][1][0] == "fn" and c_[2][1][1].split("::")[-1] in ("as_slice", "as_ref", "as_str", "deref", "borrow"):
            c_ = c_[2][0]
        return coll_ok0(c_)

    if nm in EQ and len(t[2]) == 2:
        # loop form: `for x in coll { if x == e {..} }` — x is the element read by Iterator::next
        for x, y in ((t[2][0], t[2][1]), (t[2][1], t[2][0])):
            if elem_ok(y) and is_next_elem(x, coll_ok):
                return EQ[nm]
        return None
    if last == "any" and nm.endswith("Iterator::any") and len(t[2]) == 2 and coll_ok(t[2][0]):
        e = eq_closure_of(prog, t[2][1], elem_ok)
        return True if e is True else None
    if last == "all" and nm.endswith("Iterator::all") and len(t[2]) == 2 and coll_ok(t[2][0]):
        e = eq_closure_of(prog, t[2][1], elem_ok)
        return False if e is False else None
    if last == "contains" and ("slice" in nm or "Vec" in nm) and len(t[2]) == 2 and coll_ok(t[2][0]) and elem_ok(t[2][1]):
        return True
    if nm in ("std::option::Option::is_some", "std::option::Option::is_none") and t[2]:
        x = t[2][0]
        if x[0] == "call" and x[1].split("::")[-1] in ("position", "find") and "Iterator" in x[1] and len(x[2]) == 2 and coll_ok(x[2][0]) and eq_closure_of(prog, x[2][1], elem_ok) is True:
            return nm.endswith("is_some")
    return None


def membership_option(prog, t, coll_ok, elem_ok):
    """t = coll.iter().find(|x| x == e) / .position(..): an Option that is Some exactly for members"""
    if t[0] == "call" and t[1].split("::")[-1] in ("find", "position") and "Iterator" in t[1] and len(t[2]) == 2:
        return membership(prog, ("call", "std::option::Option::is_some", (t,)), coll_ok, elem_ok) is True
    return False


# ------------------------------------------------------------------ integer worlds (P9, exact form over literals)

import engine.analysis as _an
_an.INT_VALUE[0] = lambda t: const_int(t)


def int_samples(prog, ctx, is_subject_int, extra=()):
    """sample values that separate every interval the body can distinguish: each literal the
    subject is compared with (in the body and its local callees), +-1, plus `extra`."""
    from engine.analysis import inline_walk, cmp_operands, assumed_int, len_of
    ks = set(extra) | {0, 1}
    for c, path in inline_walk(prog, ctx, 2):
        for bi, atom in c.atoms():
            terms = list(subterms(atom[1])) if atom[0] == "bool" else [atom[1]]
            if atom[0] == "int" and is_subject_int(atom[1]):
                for k_ in atom[2]:
                    if k_ != "otherwise":
                        try:
                            ks.add(int(k_))
                        except ValueError:
                            pass
            for s_ in terms:
                co = cmp_operands(s_)
                if co is not None:
                    for x, y in ((co[1], co[2]), (co[2], co[1])):
                        if is_subject_int(x):
                            v = const_int(y)
                            if v is not None:
                                ks.add(v)
                if s_[0] == "call" and "ops::Range" in s_[1] and s_[1].endswith("contains"):
                    for z in subterms(s_[2][0]):
                        v = const_int(z) if z[0] == "const" else None
                        if v is not None:
                            ks.add(v)
    out = set()
    for k_ in ks:
        out |= {k_ - 1, k_, k_ + 1}
    return sorted(v for v in out if v >= 0)


def len_outcomes(prog, ctx, is_subject, extra=()):
    """{length: success reachable?} for the sample lengths of the str/Vec/slice accepted by is_subject"""
    from engine.analysis import len_of
    isl = lambda t: len_of(t) is not None and is_subject(len_of(t))
    out = {}
    for v in int_samples(prog, ctx, isl, extra):
        w = ctx.assume_len(is_subject, v).settle()
        from engine.analysis import success_exits as _sx
        out[v] = bool(_sx(w))  # (a tail `cond.then_some(s).ok_or_else(..)` succeeds only where the world lets cond hold)
    return out


# ------------------------------------------------------------------ subtraction spellings


def minus_operand(v, is_base):
    """U if v is `base - U` (never below zero spellings included): checked_sub(base, U) unwrapped /
    with a zero fallback, saturating_sub(base, U), base - U, base -= U.  None otherwise."""
    x = v
    if x[0] == "mut" and x[2].endswith("SubAssign::sub_assign") and is_base(x[1]):
        return x[3][0]
    if x[0] == "call" and x[1] in ("std::result::Result::unwrap_or_else", "std::result::Result::unwrap_or", "std::result::Result::unwrap_or_default") and x[2]:
        x = x[2][0]
    elif x[0] == "payload":
        x = x[1][1] if x[1][0] == "trybranch" else x[1]
    if x[0] == "call" and x[1].split("::")[-1] in ("checked_sub", "saturating_sub", "sub") and len(x[2]) == 2 and is_base(x[2][0]):
        if x[1].startswith("cosmwasm_std::Uint") or x[1] == "std::ops::Sub::sub":
            return x[2][1]
    return None


# ------------------------------------------------------------------ string predicates as worlds (validators)


def prefix_world(ctx, is_s, lit, has):
    """world: the string accepted by is_s starts with the literal `lit` (has) or does not:
    decides starts_with(s, lit) and strip_prefix(s, lit) (Some / None) wherever they are evaluated"""
    sw = lambda t: t[0] == "call" and t[1].endswith("str::starts_with") and len(t[2]) == 2 and is_s(t[2][0]) and const_str(t[2][1]) == lit
    sp = lambda t: t[0] == "call" and t[1].endswith("str::strip_prefix") and len(t[2]) == 2 and is_s(t[2][0]) and const_str(t[2][1]) == lit
    return ctx.assume((sw, bool(has)), (sp, ("ok", bool(has))))


def prefix_tests(prog, ctx, is_s, lit):
    """number of places (body + local callees) where the prefix `lit` of s is examined"""
    from engine.analysis import inline_walk
    n = 0
    hit = lambda s_: s_[0] == "call" and s_[1].split("::")[-1] in ("starts_with", "strip_prefix") and len(s_[2]) == 2 and is_s(s_[2][0]) and const_str(s_[2][1]) == lit
    for c, path in inline_walk(prog, ctx, 3):
        for bi, atom in c.atoms():
            for s_ in subterms(atom[1]):
                if hit(s_):
                    n += 1
        if path:
            # a callee / closure that returns the examination as a value (`s.strip_prefix(P).and_then(..)`)
            n += sum(1 for s_ in subterms(c.T.return_term()) if hit(s_))
    return n


def rest_after(is_s, lit):
    """predicate: t = the remainder of s after the literal prefix: strip_prefix(s, lit) unwrapped"""
    def f(t):
        if t[0] != "payload":
            return False
        c = t[1][1] if t[1][0] == "trybranch" else t[1]
        return c[0] == "call" and c[1].endswith("str::strip_prefix") and len(c[2]) == 2 and is_s(c[2][0]) and const_str(c[2][1]) == lit
    return f


def charclass_world(prog, ctx, is_s, class_method, all_in_class):
    """world: every character / byte of s is in the class tested by `class_method`
    (e.g. is_ascii_alphabetic) — or not.  Decides `s.chars().all(|c| c.is_x())`,
    `s.bytes().any(|b| !b.is_x())` and their negations."""
    def quant(t):
        if t[0] != "call" or t[1].split("::")[-1] not in ("all", "any") or "Iterator" not in t[1] or len(t[2]) != 2:
            return None
        src, clo = t[2]
        if not (src[0] == "call" and src[1].split("::")[-1] in ("chars", "bytes") and src[2] and is_s(src[2][0])):
            return None
        if clo[0] != "closure":
            return None
        res = closure_result(prog, clo, params={2: ("elem",)})
        neg = False
        while res is not None and res[0] == "un" and res[1] == "Not":
            res, neg = res[2], not neg
        if res is None or res[0] != "call" or not res[1].endswith(class_method) or res[2][0] != ("elem",):
            return None
        is_all = t[1].split("::")[-1] == "all"
        if is_all and not neg:
            return all_in_class          # all(in class)
        if not is_all and neg:
            return not all_in_class      # any(not in class)
        return None                        # all(not in class) / any(in class): a different statement

    return ctx.assume((None, quant)), quant


def fn_item_body(prog, fnterm):
    """body of a function item term ('fn', path, full): a free function, or a trait method given as
    `<Self as Trait>::method` (e.g. `SwapAmountInRoute::from` of a local `impl From<&SwapRoute>`)"""
    if fnterm[0] != "fn":
        return None
    b = prog.body(fnterm[1])
    if b is not None:
        return b
    full = fnterm[2] if len(fnterm) > 2 and fnterm[2] else ""
    if full.startswith("<") and " as " in full and ">::" in full:
        inner, meth = full[1:].rsplit(">::", 1)
        self_ty, trait = inner.split(" as ", 1)
        suffix = "<impl %s for %s>::%s" % (trait, self_ty, meth)
        hits = [k for k in prog.bodies if k.endswith(suffix)]
        if len(hits) == 1:
            return prog.bodies[hits[0]]
        if meth == "into" and trait.startswith("std::convert::Into<") and trait.endswith(">"):
            # `<A as Into<B>>::into` is the blanket impl over a local `impl From<A> for B`
            dst = trait[len("std::convert::Into<"):-1]
            for suffix in ("<impl std::convert::From<%s> for %s>::from" % (self_ty, dst), "<%s as std::convert::From<%s>>::from" % (dst, self_ty)):
                hits = [k for k in prog.bodies if k.endswith(suffix)]
                if len(hits) == 1:
                    return prog.bodies[hits[0]]
    return None
