"""E2 core: fact loader, CFG, reachability with cut sets, symbolic origin terms.

Everything here works on the JSON facts written by tools/mirfacts (type-checked MIR at
mir-opt-level 0).  No code of /repo is ever executed; all verdicts are graph queries.
"""
import json
import os
import re
from collections import deque

# ----------------------------------------------------------------------------- names

_GEN = re.compile(r"::<[^<>]*>")
_GEN2 = re.compile(r"<[^<>]*>")


def strip_generics(p):
    """`cw_storage_plus::Item::<'a, T>::load` -> `cw_storage_plus::Item::load` (nested groups too)."""
    if p is None:
        return None
    out = []
    i = 0
    n = len(p)
    while i < n:
        if p.startswith("::<", i):
            depth = 0
            j = i + 2
            while j < n:
                if p[j] == "<":
                    depth += 1
                elif p[j] == ">" and p[j - 1] != "-":
                    depth -= 1
                    if depth == 0:
                        break
                j += 1
            i = j + 1
            continue
        out.append(p[i])
        i += 1
    return "".join(out)


def short(p):
    """last two path segments, generics stripped: `Item::load`."""
    p = strip_generics(p) or ""
    parts = p.split("::")
    return "::".join(parts[-2:])


# ----------------------------------------------------------------------------- program


class Program:
    """All fact files of one configuration."""

    def __init__(self, factdir, crates=("staking", "treasury", "milky_way", "initia_proto")):
        self.dir = factdir
        self.crates = {}
        self.bodies = {}
        self.adts = {}
        self.consts = {}
        self.impls = []
        self.formats = []
        for c in crates:
            f = os.path.join(factdir, c + ".json")
            if not os.path.exists(f):
                continue
            d = json.load(open(f))
            self.crates[c] = d
            for k, b in d["bodies"].items():
                self.bodies[k] = Body(self, c, b)
            for k, a in d["adts"].items():
                self.adts[k] = a
            for k, cst in d["consts"].items():
                self.consts[k] = cst
                self.bodies[k] = Body(self, c, cst["body"])
            for i in d["impls"]:
                i["crate"] = c
                self.impls.append(i)
            for f_ in d["formats"]:
                f_["crate"] = c
                self.formats.append(f_)
        self._const_init = {}
        # `s.parse::<T>()` with a local `impl FromStr for T` is a call of that from_str: resolve it here so that
        # call-graph walks, inlining and world evaluation all follow it
        from_strs = {k.split("::<", 1)[1].split(" as std::str::FromStr>::from_str")[0]: k for k in self.bodies if k.endswith(" as std::str::FromStr>::from_str")}
        if from_strs:
            for b_ in list(self.bodies.values()):
                for blk in b_.j.get("blocks", []):
                    t_ = blk.get("term") or {}
                    if t_.get("k") == "call" and (t_.get("callee") or "").endswith("str>::parse") and t_.get("targs") and t_["targs"][0] in from_strs:
                        k_ = from_strs[t_["targs"][0]]
                        t_["callee"] = t_["callee_full"] = k_
                        t_["rkey"] = k_
                        t_["resolved"] = k_.split("::", 1)[1]
                        t_["local"] = True
                        t_["rcrate"] = k_.split("::", 1)[0]
        # `x.into()` where the target type has a local `impl From<typeof x>`: the call of that from
        froms = {}
        for k in self.bodies:
            if k.endswith(">::from") or k.endswith("::from"):
                import re as _re
                m_ = _re.search(r"<impl std::convert::From<(.+)> for (.+)>::from$", k) or _re.search(r"<(.+) as std::convert::From<(.+)>>::from$", k)
                if m_:
                    src_, dst_ = (m_.group(1), m_.group(2)) if "<impl " in k else (m_.group(2), m_.group(1).split("::<", 1)[-1] if False else m_.group(1))
                    froms[(src_.strip(), dst_.strip().split("::<")[-1])] = k
        if froms:
            for b_ in list(self.bodies.values()):
                for blk in b_.j.get("blocks", []):
                    t_ = blk.get("term") or {}
                    if t_.get("k") == "call" and t_.get("callee") == "std::convert::Into::into" and len(t_.get("targs") or []) == 2:
                        k_ = froms.get((t_["targs"][0], t_["targs"][1]))
                        if k_ is None:
                            k_ = next((v for (s0, d0), v in froms.items() if s0 == t_["targs"][0] and (d0 == t_["targs"][1] or d0.endswith("::" + t_["targs"][1]) or t_["targs"][1].endswith("::" + d0))), None)
                        if k_ is not None:
                            t_["callee"] = t_["callee_full"] = k_
                            t_["rkey"] = k_
                            t_["resolved"] = k_.split("::", 1)[1]
                            t_["local"] = True
                            t_["rcrate"] = k_.split("::", 1)[0]
        global CURRENT
        CURRENT = self
        PROGRAMS.insert(0, self)
        del PROGRAMS[4:]

    def body(self, key):
        return self.bodies.get(key)

    def fn_bodies(self, crate=None):
        for k, b in self.bodies.items():
            if b.kind in ("fn", "closure") and (crate is None or b.crate == crate):
                yield b

    def const_init(self, path):
        """Initialiser of a const item as a term, e.g. ('call','cw_storage_plus::Item::new',(('const','str','config'),))."""
        if path in self._const_init:
            return self._const_init[path]
        b = self.bodies.get(path)
        t = None
        if b is not None and b.kind == "const":
            tm = Terms(b)
            t = tm.return_term()
        self._const_init[path] = t
        return t

    def storage_namespace(self, path):
        t = self.const_init(path)
        for s in subterms(t):
            if s[0] == "const" and s[1] == "str":
                return s[2]
        return None

    def format_at(self, file, line):
        return [f for f in self.formats if f["file"] == file and f["line"] == line]


PROGRAMS = []  # recently loaded programs, newest first
CURRENT = None  # the Program loaded last (named-constant lookup in rules.common.fold)


class Body:
    def __init__(self, prog, crate, j):
        self.prog = prog
        self.crate = crate
        self.j = j
        self.key = j["key"]
        self.kind = j["kind"]
        self.blocks = j["blocks"]
        self.nargs = j["args"]
        self.locals = j["locals"]
        self.span = j["span"]
        self.captures = j.get("captures")
        self.parent = j.get("parent")
        self.names = {}
        self.debug = j["debug"]
        for d in j["debug"]:
            if not d["place"]["p"]:
                self.names.setdefault(d["place"]["l"], d["name"])
        self._succ = None
        self._pred = None

    # -- CFG ------------------------------------------------------------------
    def term(self, bb):
        return self.blocks[bb]["term"]

    def succ_raw(self, bb):
        t = self.blocks[bb]["term"]
        k = t["k"]
        if k == "call":
            return [] if t["target"] is None else [t["target"]]
        if k == "switch":
            out = []
            for _, tg in t["targets"]:
                if tg not in out:
                    out.append(tg)
            if t["otherwise"] not in out:
                out.append(t["otherwise"])
            return out
        if k in ("goto", "drop", "assert"):
            return [t["target"]]
        return []

    def succs(self):
        if self._succ is None:
            self._succ = [self.succ_raw(i) if not b["cleanup"] else [] for i, b in enumerate(self.blocks)]
        return self._succ

    def preds(self):
        if self._pred is None:
            p = [[] for _ in self.blocks]
            for i, ss in enumerate(self.succs()):
                for s in ss:
                    p[s].append(i)
            self._pred = p
        return self._pred

    def reachable(self, removed_edges=frozenset(), removed_blocks=frozenset(), start=0):
        seen = set()
        if start in removed_blocks:
            return seen
        dq = deque([start])
        seen.add(start)
        succ = self.succs()
        while dq:
            b = dq.popleft()
            for s in succ[b]:
                if (b, s) in removed_edges or s in removed_blocks or s in seen:
                    continue
                seen.add(s)
                dq.append(s)
        return seen

    def reaches(self, src, dst_set, removed_edges=frozenset(), removed_blocks=frozenset()):
        r = self.reachable(removed_edges, removed_blocks, start=src)
        return bool(r & set(dst_set))

    def loc(self, bb, idx=None):
        blk = self.blocks[bb]
        if idx is not None and idx < len(blk["stmts"]):
            sp = blk["stmts"][idx].get("span")
        else:
            sp = blk["term"].get("span")
        if not sp:
            sp = self.span
        return "%s:%s" % (sp["file"], sp["line"])

    def calls(self):
        """yield (bb, term) for every call terminator in non-cleanup blocks."""
        for i, b in enumerate(self.blocks):
            if b["cleanup"]:
                continue
            t = b["term"]
            if t["k"] == "call":
                yield i, t

    def local_name(self, l):
        return self.names.get(l)

    def local_ty(self, l):
        return self.locals[l]["ty"]


def call_name(t):
    """Generic-free path of the callee as written (trait path for trait methods)."""
    return strip_generics(t.get("callee")) if t.get("callee") else None


def call_rkey(t):
    return t.get("rkey")


# ----------------------------------------------------------------------------- terms

# Calls that return (a view of / a copy of / a wrapper around) their first argument without
# changing its value.  One place, reviewed; used by origin identity (DESIGN P6).
TRANSPARENT = {
    "std::clone::Clone::clone",
    "std::string::ToString::to_string",
    "std::borrow::ToOwned::to_owned",
    "std::convert::Into::into",
    "std::convert::From::from",
    "std::convert::AsRef::as_ref",
    "std::ops::Deref::deref",
    "std::ops::DerefMut::deref_mut",
    "std::borrow::Borrow::borrow",
    "std::string::String::as_str",
    "std::string::String::as_bytes",
    "core::str::as_bytes",
    "core::str::<impl str>::as_bytes",
    "core::str::<impl str>::to_string",
    "core::str::<impl str>::to_owned",
    "cosmwasm_std::Addr::as_str",
    "cosmwasm_std::Addr::to_string",
    "cosmwasm_std::Addr::into_string",
    "cosmwasm_std::Addr::unchecked",
    "cosmwasm_std::Uint128::u128",
    "cosmwasm_std::Uint128::new",
    "cosmwasm_std::DepsMut::as_ref",
    "cosmwasm_std::DepsMut::branch",
    "std::vec::Vec::as_slice",
    "std::slice::<impl [T]>::to_vec",
    "std::hint::must_use",
    "std::option::Option::as_ref",
    "std::option::Option::as_mut",
    "std::option::Option::cloned",
    "std::option::Option::copied",
    "std::option::Option::as_deref",
    "std::option::Option::as_deref_mut",
    "std::result::Result::as_ref",
    "std::boxed::Box::new",
    "std::iter::IntoIterator::into_iter",
    "std::slice::<impl [T]>::iter",
    "std::vec::Vec::iter",
    "core::slice::iter",
    "std::slice::to_vec",
    "std::array::as_slice",
    "core::array::as_slice",
    "core::str::as_bytes",
    # read-and-reset helpers: the call's value is the previous value of the place (the place's
    # new value is modelled in Terms._from_def)
    "std::option::Option::take",
    "std::mem::take",
    "std::mem::replace",
}

# `&mut place` calls whose effect on the place is a plain assignment
_RESET = {
    "std::option::Option::take": lambda args, targs=(): ("agg", "std::option::Option", "None", ()),
    "std::mem::take": lambda args, targs=(): _default_of(targs[0] if targs else None),
    "std::mem::replace": lambda args, targs=(): args[0] if args else ("unknown",),
    # opt.take_if(pred): returns Some(v) and leaves None when pred(v) holds, otherwise returns None and leaves the place
    # alone.  Modelled as `take` for the place: exact on the paths where the result is Some (where the handlers save the
    # state); on the other paths the place is reported as cleared although it is untouched (see DESIGN 11.9).
    "std::option::Option::take_if": lambda args, targs=(): ("agg", "std::option::Option", "None", ()),
    # opt.replace(v) / opt.insert(v): the place becomes Some(v)
    "std::option::Option::replace": lambda args, targs=(): ("agg", "std::option::Option", "Some", (("fld", "0", args[0]),)) if args else ("unknown",),
    "std::option::Option::insert": lambda args, targs=(): ("agg", "std::option::Option", "Some", (("fld", "0", args[0]),)) if args else ("unknown",),
}


def _default_of(ty):
    """<ty as Default>::default() as a term: zero for the numeric types"""
    if ty in ("cosmwasm_std::Uint128",):
        return ("call", "cosmwasm_std::Uint128::zero", ())
    if ty in ("u8", "u16", "u32", "u64", "u128", "usize", "i32", "i64"):
        return ("const", "int", 0)
    if ty == "bool":
        return ("const", "bool", False)
    if ty and ty.startswith(("std::option::Option<", "core::option::Option<")):
        return ("agg", "std::option::Option", "None", ())
    return ("call", "std::default::Default::default", ())

UNWRAP_OK = {"std::result::Result::unwrap", "std::result::Result::expect"}
UNWRAP_SOME = {"std::option::Option::unwrap", "std::option::Option::expect"}


class T(tuple):
    """hash-consed term: cached hash, one object per distinct term (so DAG-shaped terms stay linear)."""

    def __hash__(self):
        try:
            return self._h
        except AttributeError:
            h = tuple.__hash__(self)
            self._h = h
            return h


_INTERN = {}
_RAW = {}


def intern(t):
    """canonical hash-consed form of a (possibly raw, nested) term."""
    if isinstance(t, T) or not isinstance(t, tuple):
        return t
    r = _RAW.get(id(t))
    if r is not None and r[0] is t:
        return r[1]
    k = T(intern(x) for x in t)
    c = _INTERN.get(k)
    if c is None:
        _INTERN[k] = k
        c = k
    _RAW[id(t)] = (t, c)
    if len(_RAW) > 400000:
        _RAW.clear()
    return c


def subterms(t):
    """every DISTINCT term inside t, each once (terms are tuples whose first element is a kind
    string; any other tuple is a plain sequence of terms)."""
    t = intern(t)
    seen = set()
    stack = [t]
    while stack:
        x = stack.pop()
        if not isinstance(x, tuple) or id(x) in seen:
            continue
        seen.add(id(x))
        if x and isinstance(x[0], str):
            yield x
            for y in reversed(x[1:]):
                if isinstance(y, tuple):
                    stack.append(y)
        else:
            for y in reversed(x):
                if isinstance(y, tuple):
                    stack.append(y)


def contains(t, pred):
    for s in subterms(t):
        if pred(s):
            return True
    return False


def fmt(t, depth=0, _budget=None):
    """human readable rendering of a term (diagnostics and evidence samples); bounded size."""
    if _budget is None:
        _budget = [4000]
    if not isinstance(t, tuple) or not t:
        return str(t)
    if depth > 12 or _budget[0] <= 0:
        return "…"
    _budget[0] -= 8
    k = t[0]
    f = lambda x: fmt(x, depth + 1, _budget)
    if k == "param":
        return "arg%d%s" % (t[1], ("(" + t[2] + ")") if len(t) > 2 and t[2] else "")
    if k == "field":
        return f(t[1]) + "." + t[2]
    if k == "payload":
        return f(t[1]) + "?" + t[2]
    if k == "call":
        return short(t[1]) + "(" + ", ".join(f(a) for a in t[2]) + ")"
    if k == "const":
        return repr(t[2]) if t[1] == "str" else str(t[2])
    if k == "item":
        return t[1].split("::")[-1]
    if k == "agg":
        return short(t[1]) + "::" + t[2] + "{" + ", ".join(n + ": " + f(v) for _, n, v in t[3]) + "}"
    if k == "closure":
        return "closure<" + t[1].split("::", 1)[-1] + ">"
    if k == "bin":
        return t[1] + "(" + f(t[2]) + ", " + f(t[3]) + ")"
    if k == "un":
        return t[1] + "(" + f(t[2]) + ")"
    if k == "phi":
        return "phi(" + " | ".join(f(a) for a in t[1]) + ")"
    if k == "mut":
        return short(t[2]) + "[" + f(t[1]) + "](" + ", ".join(f(a) for a in t[3]) + ")"
    if k == "upd":
        return f(t[1]) + "{" + ".".join(t[2]) + " := " + f(t[3]) + "}"
    if k == "capture":
        return "cap:" + t[1]
    if k in ("tuple", "array"):
        return k + "[" + ", ".join(f(a) for a in t[1]) + "]"
    if k == "discr":
        return "discr(" + f(t[1]) + ")"
    if k == "cast":
        return f(t[1])
    if k == "fn":
        return "fn:" + short(t[1])
    if k == "trybranch":
        return f(t[1])
    if k == "variant":
        return f(t[1]) + "@" + t[2]
    if k == "fld":
        return t[1] + ": " + f(t[2])
    if k == "index":
        return f(t[1]) + "[" + f(t[2]) + "]"
    return str(t)


class Terms:
    """Backward def-use over one body: operand -> origin term.

    removed_edges: CFG edges pruned by the current world (P5); reaching definitions are
    computed in the pruned graph, so a term is specific to that world.
    """

    def __init__(self, body, removed_edges=frozenset(), captures=None, params=None, depth=0):
        self.b = body
        self.removed = frozenset(removed_edges)
        self.captures = captures  # dict name -> term (from the creating aggregate)
        self.params = params  # dict index -> term (for summaries / inlining)
        self.depth = depth
        self.memo = {}
        self._index()

    # ---- definition index
    def _index(self):
        b = self.b
        self.defs = {}  # local -> list of (bb, idx, kind, proj, payload)
        self.reach = b.reachable(self.removed)
        for bi, blk in enumerate(b.blocks):
            if blk["cleanup"] or bi not in self.reach:
                continue
            for si, st in enumerate(blk["stmts"]):
                if st["k"] == "assign":
                    pl = st["place"]
                    self.defs.setdefault(pl["l"], []).append((bi, si, "assign", pl["p"], st["rv"]))
                elif st["k"] == "setdiscr":
                    pl = st["place"]
                    self.defs.setdefault(pl["l"], []).append((bi, si, "setdiscr", pl["p"], st))
            t = blk["term"]
            if t["k"] == "call":
                d = t["dest"]
                self.defs.setdefault(d["l"], []).append((bi, len(blk["stmts"]), "call", d["p"], t))
        # in-place mutation through `&mut place` handed to a call: recorded as a def of `place`
        # at the call.  Only calls whose first argument is the &mut temp are considered mutators.
        self.mutrefs = {}  # temp local -> (place)
        for l, ds in list(self.defs.items()):
            for (bi, si, kind, proj, rv) in ds:
                if kind == "assign" and not proj and isinstance(rv, dict) and "ref" in rv and rv.get("mut"):
                    self.mutrefs[l] = rv["ref"]
        for bi, blk in enumerate(b.blocks):
            if blk["cleanup"] or bi not in self.reach:
                continue
            t = blk["term"]
            if t["k"] != "call":
                continue
            if call_name(t) in ("std::iter::Iterator::next", "std::iter::DoubleEndedIterator::next_back"):
                # advancing an iterator: the element read is modelled as next(<collection>)?,
                # the iterator's own state is not a value any rule looks at
                continue
            for ai, a in enumerate(t["args"]):
                pl = a.get("m") or a.get("c")
                if pl and not pl["p"] and pl["l"] in self.mutrefs:
                    target = self._root_mut(pl["l"])
                    if target is None:
                        continue
                    tty = b.locals[target["l"]]["ty"]
                    if "DepsMut" in tty or "dyn cosmwasm_std::Storage" in tty or "cosmwasm_std::Deps<" in tty:
                        continue  # storage handles: effects are storage ops, not value mutations
                    # `deps.storage` style reborrows are not value mutations we track
                    self.defs.setdefault(target["l"], []).append((bi, len(blk["stmts"]), "mutcall", target["p"], (t, ai)))

    def _root_mut(self, l, guard=0):
        pl = self.mutrefs.get(l)
        if pl is None or guard > 6:
            return None
        # &mut (*_x) where _x is itself a &mut temp
        if pl["p"] and pl["p"][0] == "deref" and pl["l"] in self.mutrefs and len(pl["p"]) == 1:
            return self._root_mut(pl["l"], guard + 1)
        return pl

    # ---- reaching definitions of (local, proj) at (bb, idx)
    @staticmethod
    def _pkey(proj):
        out = []
        for e in proj:
            if e == "deref":
                out.append("*")
            elif "f" in e:
                out.append("." + e["f"])
            elif "dc" in e:
                out.append("@" + e["dc"])
            elif "idx" in e:
                out.append("[i]")
            elif "cidx" in e:
                out.append("[%s%d]" % ("-" if e.get("from_end") else "", e["cidx"]))
            else:
                out.append("?")
        return out

    def _overlaps(self, dproj, uproj):
        a = [x for x in self._pkey(dproj) if not x.startswith("@")]
        c = [x for x in self._pkey(uproj) if not x.startswith("@")]
        n = min(len(a), len(c))
        return a[:n] == c[:n]

    def reaching(self, local, proj, bb, idx):
        """set of defs (bb, idx, kind, proj, payload) of local overlapping proj that reach (bb, idx)."""
        self._entry_reached = False  # never a stale answer from an earlier query
        cands = [d for d in self.defs.get(local, []) if self._overlaps(d[3], proj)]
        if not cands:
            return []
        by_block = {}
        for d in cands:
            by_block.setdefault(d[0], []).append(d)
        for v in by_block.values():
            v.sort(key=lambda d: d[1])
        out = []
        seen_defs = set()
        # in the same block, before idx
        here = [d for d in by_block.get(bb, []) if d[1] < idx]
        if here:
            return [here[-1]]
        preds = self.b.preds()
        seen = set()
        dq = deque()
        self._entry_reached = bb == 0
        for p in preds[bb]:
            if (p, bb) not in self.removed and p in self.reach:
                dq.append(p)
        while dq:
            x = dq.popleft()
            if x in seen:
                continue
            seen.add(x)
            ds = by_block.get(x)
            if ds:
                d = ds[-1]
                k = (d[0], d[1])
                if k not in seen_defs:
                    seen_defs.add(k)
                    out.append(d)
                continue
            if x == 0:
                # a path from the function entry without any definition: for a parameter the
                # value it had on entry is one of the reaching values
                self._entry_reached = True
            if x == bb:
                # loop back to the use block: defs after idx in this block reach around
                later = [d for d in by_block.get(bb, []) if d[1] >= idx]
                if later:
                    d = later[-1]
                    if (d[0], d[1]) not in seen_defs:
                        seen_defs.add((d[0], d[1]))
                        out.append(d)
                    continue
            for p in preds[x]:
                if (p, x) not in self.removed and p in self.reach:
                    dq.append(p)
        return out

    # ---- terms
    def const_term(self, k):
        if "str" in k:
            return ("const", "str", k["str"])
        if "int" in k:
            return ("const", "int", int(k["int"]), k.get("ty"))
        if "bool" in k:
            return ("const", "bool", k["bool"])
        if "item" in k:
            return ("item", k["item"])
        if "promoted" in k:
            pb = self.b.prog.body(self._base_key() + "::promoted[%d]" % k["promoted"])
            if pb is not None:
                return Terms(pb).return_term()
            return ("const", "promoted", k["promoted"])
        if "fn" in k:
            return ("fn", k["fn"], k.get("full"))
        if "zst" in k:
            return ("const", "zst", k["zst"])
        return ("const", "other", json.dumps(k, sort_keys=True))

    def _base_key(self):
        k = self.b.key
        i = k.find("::promoted[")
        return k if i < 0 else k[:i]

    def operand(self, op, bb, idx):
        if "k" in op:
            return intern(self.const_term(op["k"]))
        pl = op.get("c") or op.get("m")
        if pl is None:
            return ("unknown", json.dumps(op)[:60])
        return self.place(pl, bb, idx)

    def place(self, pl, bb, idx):
        key = (pl["l"], json.dumps(pl["p"], sort_keys=True), bb, idx)
        if key in self.memo:
            v = self.memo[key]
            if v is None:
                return ("cycle", pl["s"])
            return v
        self.memo[key] = None
        st = self.__dict__.setdefault("_pos", [])
        st.append((bb, idx))
        try:
            t = intern(self._place(pl, bb, idx))
        finally:
            st.pop()
        self.memo[key] = t
        return t

    def _apply_proj(self, base, proj):
        t = base
        for e in proj:
            if e == "deref":
                continue
            if "f" in e:
                t = self._field(t, e["f"])
            elif "dc" in e:
                t = ("variant", t, e["dc"])
            elif "idx" in e:
                ix = ("local", e["idx"])
                pos = self.__dict__.get("_pos") or []
                if pos:
                    # `xs[i]` with `i` a local: its value where the place is read (a literal index is `_n = const k`)
                    v = self.place({"l": e["idx"], "p": [], "s": "_%d" % e["idx"]}, pos[-1][0], pos[-1][1])
                    if v[0] == "const" and v[1] == "int":
                        ix = v
                    else:
                        # xs[xs.len() - 1]: the last element (the from-the-end index -1 of slice patterns)
                        w = v[1] if v[0] == "field" and v[2] == "0" else v
                        if w[0] == "bin" and w[1] in ("Sub", "SubWithOverflow", "SubUnchecked") and tuple(w[3][:3]) == ("const", "int", 1):
                            L = w[2]
                            lx = L[2] if (L[0] == "un" and L[1] == "PtrMetadata") else (L[2][0] if L[0] == "call" and L[1].split("::")[-1] == "len" and L[2] else None)
                            if lx is not None and norm(lx) == norm(t):
                                ix = ("const", "int", -1)
                t = ("index", t, ix)
            elif "cidx" in e:
                if t[0] == "array" and not e.get("from_end") and 0 <= e["cidx"] < len(t[1]):
                    t = t[1][e["cidx"]]  # an element of a literal array
                else:
                    t = ("index", t, ("const", "int", (-e["cidx"]) if e.get("from_end") else e["cidx"]))
            elif "sub" in e:
                t = ("subslice", t, tuple(e["sub"]), e.get("from_end"))
            else:
                t = ("proj?", t)
        return t

    def _field(self, t, name):
        if t[0] == "variant":
            base0 = t[1]
            # downcast of a freshly built enum value: take the field / drop infeasible alternatives
            if base0[0] == "agg":
                if base0[2] == t[2]:
                    for _, n, v in base0[3]:
                        if n == name:
                            return v
                return ("infeasible",)
            if base0[0] == "phi":
                alts = [self._field(("variant", x, t[2]), name) for x in base0[1]]
                alts = [a for a in alts if a != ("infeasible",)]
                if alts:
                    return self._phi(alts)
                return ("infeasible",)
            # (x as Some).0 -> payload
            if name == "0":
                base = t[1]
                if base[0] == "trybranch":
                    base = base[1]
                v = t[2]
                if v == "Continue":
                    v = "Ok/Some"
                if v in ("Ok", "Some"):
                    v = "Ok/Some"
                return ("payload", base, v)
            return ("field", t, name)
        if t[0] == "agg":
            for _, n, v in t[3]:
                if n == name:
                    return v
        if t[0] == "tuple":
            try:
                return t[1][int(name)]
            except Exception:
                pass
        if t[0] == "upd":
            # struct with a field overwritten
            if t[2] and t[2][0] == name:
                if len(t[2]) == 1:
                    return t[3]
                return ("upd", self._field(t[1], name), t[2][1:], t[3])
            return self._field(t[1], name)
        if t[0] == "phi":
            return self._phi([self._field(x, name) for x in t[1]])
        if t[0] == "closure":
            for _, n, v in t[2]:
                if n == name:
                    return v
        return ("field", t, name)

    @staticmethod
    def _phi(ts):
        u = []
        ts = [t for t in ts if t != ("infeasible",)] or [("infeasible",)]
        for t in ts:
            if t[0] == "phi":
                for x in t[1]:
                    if x not in u:
                        u.append(x)
            elif t not in u:
                u.append(t)
        if len(u) == 1:
            return u[0]
        return ("phi", tuple(u))

    def _place(self, pl, bb, idx):
        l = pl["l"]
        proj = pl["p"]
        b = self.b
        # closure environment
        if b.kind == "closure" and l == 1 and proj:
            # (*_1).name / _1.name
            pr = [e for e in proj if e != "deref"]
            if pr and isinstance(pr[0], dict) and "f" in pr[0] and str(pr[0].get("of", "")).startswith("closure:"):
                name = pr[0]["f"]
                clean = name[6:] if name.startswith("_ref__") else name
                base = ("capture", clean)
                if self.captures is not None and clean in self.captures:
                    base = self.captures[clean]
                return self._apply_proj(base, pr[1:])
        if 1 <= l <= b.nargs and b.kind != "promoted" and b.kind != "const":
            ds = self.defs.get(l, [])
            if not ds:
                base = self.params[l] if self.params and l in self.params else ("param", l, b.local_name(l) or "", b.local_ty(l))
                return self._apply_proj(base, proj)
        ds = self.reaching(l, proj, bb, idx)
        entry = getattr(self, "_entry_reached", False)
        if not ds:
            if 1 <= l <= b.nargs:
                base = self.params[l] if self.params and l in self.params else ("param", l, b.local_name(l) or "", b.local_ty(l))
                return self._apply_proj(base, proj)
            return ("undef", pl["s"])
        ts = []
        if entry and 1 <= l <= b.nargs and b.kind not in ("promoted", "const"):
            base = self.params[l] if self.params and l in self.params else ("param", l, b.local_name(l) or "", b.local_ty(l))
            ts.append(self._apply_proj(base, proj))
        for d in ds:
            ts.append(self._from_def(d, l, proj))
        return self._phi(ts)

    def _from_def(self, d, l, uproj):
        (dbb, didx, kind, dproj, payload) = d
        dk = [x for x in self._pkey(dproj) if not x.startswith("@")]
        uk_full = self._pkey(uproj)
        # remaining projection after the def's projection (skip as many non-downcast entries as dk has)
        rest = []
        n = 0
        for e, k in zip(uproj, uk_full):
            if n < len(dk) and not k.startswith("@"):
                n += 1
                continue
            if n < len(dk):
                continue
            rest.append(e)
        if kind == "assign":
            val = self.rvalue(payload, dbb, didx)
            if len(dk) > len([k for k in uk_full if not k.startswith("@")]):
                # def writes a sub-part of what is read (e.g. read `_4`, def `_4.pending_owner = ..`)
                sub = tuple(x[1:] for x in dk[len([k for k in uk_full if not k.startswith("@")]):] if x.startswith("."))
                prev = self.place({"l": l, "p": uproj, "s": "_%d" % l}, dbb, didx)
                return ("upd", prev, sub, val)
            return self._apply_proj(val, rest)
        if kind == "setdiscr":
            return ("setdiscr", payload["variant"])
        if kind == "call":
            val = self.call_term(payload, dbb)
            return self._apply_proj(val, rest)
        if kind == "mutcall":
            t, ai = payload
            nm = call_name(t) or "?"
            args = tuple(self.operand(a, dbb, len(self.b.blocks[dbb]["stmts"])) for i, a in enumerate(t["args"]) if i != ai)
            nu = len([k for k in uk_full if not k.startswith("@")])
            reset = _RESET.get(nm)
            if reset is not None:
                newv = reset(args, tuple(t.get("targs") or ()))
                if len(dk) > nu:
                    sub = tuple(x[1:] for x in dk[nu:] if x.startswith("."))
                    prev = self.place({"l": l, "p": uproj, "s": "_%d" % l}, dbb, didx)
                    return ("upd", prev, sub, newv)
                return self._apply_proj(newv, rest)
            if len(dk) > nu:
                sub = tuple(x[1:] for x in dk[nu:] if x.startswith("."))
                prev = self.place({"l": l, "p": uproj, "s": "_%d" % l}, dbb, didx)
                inner_prev = prev
                for s_ in sub:
                    inner_prev = self._field(inner_prev, s_)
                return ("upd", prev, sub, ("mut", inner_prev, nm, args) + ((ai,) if ai else ()))
            prev = self.place({"l": l, "p": dproj, "s": "_%d" % l}, dbb, didx)
            return self._apply_proj(("mut", prev, nm, args) + ((ai,) if ai else ()), rest)
        return ("unknown",)

    def rvalue(self, rv, bb, idx):
        return intern(self._rvalue(rv, bb, idx))

    def _rvalue(self, rv, bb, idx):
        if "use" in rv:
            return self.operand(rv["use"], bb, idx)
        if "ref" in rv:
            return self.place(rv["ref"], bb, idx)
        if "rawptr" in rv:
            return self.place(rv["rawptr"], bb, idx)
        if "cast" in rv:
            return self.operand(rv["a"], bb, idx)
        if "discr" in rv:
            return ("discr", self.place(rv["discr"], bb, idx))
        if "bin" in rv:
            return ("bin", rv["bin"], self.operand(rv["a"], bb, idx), self.operand(rv["b"], bb, idx))
        if "un" in rv:
            return ("un", rv["un"], self.operand(rv["a"], bb, idx))
        if "agg" in rv:
            k = rv["agg"]
            if k == "adt":
                return ("agg", rv["adt"], rv["variant"], tuple(("fld", n, self.operand(v, bb, idx)) for n, v in rv["fields"].items()))
            if k == "closure":
                return ("closure", rv["closure"], tuple(("fld", n[6:] if n.startswith("_ref__") else n, self.operand(v, bb, idx)) for n, v in rv["fields"].items()))
            if k == "tuple":
                return ("tuple", tuple(self.operand(v, bb, idx) for v in rv["elems"]))
            if k == "array":
                return ("array", tuple(self.operand(v, bb, idx) for v in rv["elems"]))
            return ("aggother", tuple(self.operand(v, bb, idx) for v in rv.get("elems", [])))
        if "repeat" in rv:
            return ("repeat", self.operand(rv["repeat"], bb, idx))
        return ("unknown", json.dumps(rv)[:80])

    def call_term(self, t, bb):
        return intern(self._call_term(t, bb))

    def _call_term(self, t, bb):
        idx = len(self.b.blocks[bb]["stmts"])
        nm = call_name(t)
        args = tuple(self.operand(a, bb, idx) for a in t["args"])
        if nm is None:
            return ("callptr", self.operand(t["fnptr"], bb, idx), args)
        if nm in TRANSPARENT and args and not (t.get("rkey") in self.b.prog.bodies and nm.split("::")[-1] in ("from", "into", "try_from", "try_into")):
            # (a conversion with a local impl — `Totals::from(&state)` — is a call of that impl, not an identity)
            return args[0]
        if nm == "std::ops::Try::branch" and args:
            return ("trybranch", args[0])
        if nm in ("std::ops::Index::index", "std::ops::IndexMut::index_mut") and len(args) == 2 and args[1][0] == "agg" and args[1][1].endswith("RangeFull"):
            return args[0]  # xs[..] is xs
        if nm.endswith("array::map") and len(args) == 2 and args[0][0] == "array" and args[1][0] == "closure":
            # [a, b].map(f) is [f(a), f(b)]
            return ("array", tuple(("call", "std::ops::Fn::call", (args[1], ("tuple", (e_,)))) for e_ in args[0][1]))
        if nm == "std::option::Option::take_if" and len(args) == 2:
            # the value handed back is `opt.filter(pred)` of the value before the call
            return ("call", "std::option::Option::filter", args, ("meta", "std::option::Option::filter", None))
        if nm in UNWRAP_OK or nm in UNWRAP_SOME:
            return ("payload", args[0], "Ok/Some")
        if nm == "std::boxed::box_assume_init_into_vec_unsafe" and args:
            # vec![..]: the box was written through `(*box).value.value.0 = [elems]`
            a = args[0]
            for s_ in subterms(a):
                if s_[0] == "array":
                    return ("call", "vec!", s_[1])
            return ("call", "vec!", (a,))
        w = self._thin_wrapper(t.get("rkey"), args)
        if w is not None:
            return w
        return ("call", nm, args, ("meta", t.get("resolved"), t.get("rkey")))

    def _thin_wrapper(self, rkey, args):
        """a local accessor that only forwards to one storage read, or only builds a key tuple
        (`fn find_request(storage, user, id) { requests().may_load(storage, key(id, user)) }`,
        `fn key(id, user) -> (u64, String)`): its call is the read / the tuple itself."""
        prog = self.b.prog
        cb = prog.bodies.get(rkey) if rkey else None
        if cb is None or cb.kind != "fn" or cb.key == self.b.key or len(cb.blocks) > 16 or self.depth > 3:
            return None
        thin = prog.__dict__.setdefault("_thin", {})
        if rkey not in thin:
            ok = all(blk["cleanup"] or blk["term"]["k"] in ("call", "return", "goto", "drop", "assert") for blk in cb.blocks)
            thin[rkey] = ok
        if not thin[rkey]:
            return None
        tt = Terms(cb, params={i + 1: a for i, a in enumerate(args)}, depth=self.depth + 1)
        rt = tt.return_term()
        head = rt
        while head[0] in ("payload", "trybranch"):
            head = head[1]
        if head[0] == "tuple":
            return rt
        if head[0] == "call" and head[1].startswith("cw_storage_plus::") and head[1].split("::")[-1] in ("load", "may_load", "has"):
            return rt
        return None

    def return_term(self):
        """phi of the values of _0 at every return."""
        ts = []
        for bi, blk in enumerate(self.b.blocks):
            if blk["cleanup"] or bi not in self.reach:
                continue
            if blk["term"]["k"] == "return":
                ts.append(self.place({"l": 0, "p": [], "s": "_0"}, bi, len(blk["stmts"])))
        if not ts:
            return intern(("noreturn",))
        return intern(self._phi(ts))


_NORM = {}


def norm(t):
    """normalise a term for identity comparison: `?`-payloads, drop the resolved-text of calls
    and the debug names of parameters."""
    t = intern(t)
    if not isinstance(t, tuple):
        return t
    r = _NORM.get(id(t))
    if r is not None and r[0] is t:
        return r[1]
    if t and isinstance(t[0], str):
        k = t[0]
        if k == "payload":
            base = norm(t[1])
            if base[0] == "trybranch":
                base = base[1]
            # the Ok / Some payload is not touched by error-side combinators
            while base[0] == "call" and base[1] in ("std::result::Result::map_err", "std::option::Option::ok_or", "std::option::Option::ok_or_else", "std::result::Result::or_else") and base[2] and t[2] == "Ok/Some":
                base = base[2][0]
                if base[0] == "trybranch":
                    base = base[1]
            out = ("payload", base, t[2])
        elif k == "call":
            out = ("call", t[1], norm(t[2]))
        elif k == "param":
            out = ("param", t[1])
        else:
            out = (k,) + tuple(norm(x) for x in t[1:])
    else:
        out = tuple(norm(x) for x in t)
    out = intern(out)
    _NORM[id(t)] = (t, out)
    return out


def field_of(t, name):
    """field `name` of a struct-valued term, looking through fresh aggregates, field updates and merges."""
    if t[0] == "tuple":
        try:
            return t[1][int(name)]
        except (ValueError, IndexError):
            return intern(("field", t, name))
    if t[0] == "agg":
        for _, n, v in t[3]:
            if n == name:
                return v
        return intern(("field", t, name))
    if t[0] == "call" and t[1] == "cosmwasm_std::Coin::new" and len(t[2]) == 2 and name in ("amount", "denom"):
        return t[2][0] if name == "amount" else t[2][1]
    if t[0] == "upd":
        if t[2] and t[2][0] == name:
            return t[3] if len(t[2]) == 1 else intern(("upd", field_of(t[1], name), t[2][1:], t[3]))
        return field_of(t[1], name)
    if t[0] == "phi":
        alts = []
        for a in t[1]:
            f = field_of(a, name)
            if f not in alts:
                alts.append(f)
        return alts[0] if len(alts) == 1 else intern(("phi", tuple(alts)))
    return intern(("field", t, name))
