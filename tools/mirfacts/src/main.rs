// mirfacts — E1 of /verif/DESIGN.md.
//
// A rustc_private driver used as RUSTC_WORKSPACE_WRAPPER under `cargo +nightly check`.
// For the workspace crates listed in WANT it writes ONE json file per (configuration, crate)
// containing the type-checked program as facts: every non-derive MIR body (statements,
// terminators, resolved callees, field names, constants), the ADT table, const items with
// their initialiser bodies, impl blocks with associated string constants and the
// `format_args!` templates from the AST.  It never executes any code of the crate.
//
// Environment:  MIRFACTS_OUT  output directory (required; when unset the driver behaves as rustc)
//               MIRFACTS_NONCE  run nonce copied into the file (freshness check by the caller)
//               MIRFACTS_CONFIG configuration label copied into the file
#![feature(rustc_private)]
extern crate rustc_abi;
extern crate rustc_ast;
extern crate rustc_driver;
extern crate rustc_hir;
extern crate rustc_interface;
extern crate rustc_middle;
extern crate rustc_span;

use rustc_ast::visit::Visitor;
use rustc_driver::Compilation;
use rustc_hir::def::DefKind;
use rustc_hir::def_id::DefId;
use rustc_interface::interface::Compiler;
use rustc_middle::mir::{
    self, AggregateKind, Body, Const, ConstValue, Operand, Place, ProjectionElem, Rvalue,
    StatementKind, TerminatorKind,
};
use rustc_middle::ty::{self, Instance, Ty, TyCtxt, TypingEnv};
use std::fmt::Write as _;

const WANT: &[&str] = &["staking", "treasury", "milky_way", "initia_proto"];

// ---------------------------------------------------------------- tiny JSON value
enum J {
    Null,
    B(bool),
    N(i64),
    S(String),
    A(Vec<J>),
    O(Vec<(String, J)>),
}
fn s<T: Into<String>>(x: T) -> J {
    J::S(x.into())
}
fn o(v: Vec<(&str, J)>) -> J {
    J::O(v.into_iter().map(|(k, v)| (k.to_string(), v)).collect())
}
fn esc(out: &mut String, t: &str) {
    out.push('"');
    for c in t.chars() {
        match c {
            '"' => out.push_str("\\\""),
            '\\' => out.push_str("\\\\"),
            '\n' => out.push_str("\\n"),
            '\r' => out.push_str("\\r"),
            '\t' => out.push_str("\\t"),
            c if (c as u32) < 0x20 => {
                let _ = write!(out, "\\u{:04x}", c as u32);
            }
            c => out.push(c),
        }
    }
    out.push('"');
}
fn ser(out: &mut String, j: &J) {
    match j {
        J::Null => out.push_str("null"),
        J::B(b) => out.push_str(if *b { "true" } else { "false" }),
        J::N(n) => {
            let _ = write!(out, "{}", n);
        }
        J::S(t) => esc(out, t),
        J::A(v) => {
            out.push('[');
            for (i, x) in v.iter().enumerate() {
                if i > 0 {
                    out.push(',');
                }
                ser(out, x);
            }
            out.push(']');
        }
        J::O(v) => {
            out.push('{');
            for (i, (k, x)) in v.iter().enumerate() {
                if i > 0 {
                    out.push(',');
                }
                esc(out, k);
                out.push(':');
                ser(out, x);
            }
            out.push('}');
        }
    }
}

// ---------------------------------------------------------------- AST side table (format_args!)
struct FmtV<'a> {
    out: &'a mut Vec<J>,
    sm: &'a rustc_span::source_map::SourceMap,
}
impl<'a, 'ast> Visitor<'ast> for FmtV<'a> {
    fn visit_expr(&mut self, e: &'ast rustc_ast::Expr) {
        if let rustc_ast::ExprKind::FormatArgs(fa) = &e.kind {
            let mut pieces = vec![];
            for p in fa.template.iter() {
                match p {
                    rustc_ast::FormatArgsPiece::Literal(t) => pieces.push(o(vec![("lit", s(t.as_str()))])),
                    rustc_ast::FormatArgsPiece::Placeholder(ph) => {
                        let idx = match ph.argument.index {
                            Ok(i) => i as i64,
                            Err(_) => -1,
                        };
                        let tr = format!("{:?}", ph.format_trait);
                        pieces.push(o(vec![("arg", J::N(idx)), ("trait", s(tr))]))
                    }
                }
            }
            let args: Vec<J> = fa
                .arguments
                .all_args()
                .iter()
                .map(|a| s(self.sm.span_to_snippet(a.expr.span).unwrap_or_default()))
                .collect();
            let cs = e.span.source_callsite();
            let loc = self.sm.lookup_char_pos(cs.lo());
            self.out.push(o(vec![
                ("file", s(format!("{}", loc.file.name.prefer_local_unconditionally()))),
                ("line", J::N(loc.line as i64)),
                ("col", J::N(loc.col.0 as i64)),
                ("pieces", J::A(pieces)),
                ("args", J::A(args)),
            ]));
        }
        rustc_ast::visit::walk_expr(self, e);
    }
}

// ---------------------------------------------------------------- helpers
struct Cx<'tcx> {
    tcx: TyCtxt<'tcx>,
    krate: String,
}

impl<'tcx> Cx<'tcx> {
    fn path(&self, d: DefId) -> String {
        let p = self.tcx.def_path_str(d);
        if d.is_local() {
            format!("{}::{}", self.krate, p)
        } else {
            p
        }
    }
    fn ty_s(&self, t: Ty<'tcx>) -> String {
        format!("{}", t)
    }
    fn adt_of(&self, t: Ty<'tcx>) -> J {
        let mut t = t;
        loop {
            match t.kind() {
                ty::Ref(_, inner, _) => t = *inner,
                ty::Adt(a, _) => return s(self.path(a.did())),
                _ => return J::Null,
            }
        }
    }
    fn span_j(&self, sp: rustc_span::Span) -> J {
        let sm = self.tcx.sess.source_map();
        let exp = sp.from_expansion();
        let cs = sp.source_callsite();
        let loc = sm.lookup_char_pos(cs.lo());
        let mut v = vec![
            ("file", s(format!("{}", loc.file.name.prefer_local_unconditionally()))),
            ("line", J::N(loc.line as i64)),
        ];
        if exp {
            v.push(("exp", J::B(true)));
            if let Some(m) = sp.macro_backtrace().last() {
                v.push(("macro", s(format!("{}", m.kind.descr()))));
                v.push(("mname", s(format!("{:?}", m.kind))));
            }
        }
        o(v)
    }

    fn place(&self, body: &Body<'tcx>, p: &Place<'tcx>) -> J {
        let mut txt = format!("_{}", p.local.as_u32());
        let mut proj = vec![];
        let mut ty = mir::PlaceTy::from_ty(body.local_decls[p.local].ty);
        for elem in p.projection.iter() {
            match elem {
                ProjectionElem::Deref => {
                    txt = format!("(*{})", txt);
                    proj.push(s("deref"));
                }
                ProjectionElem::Field(f, _) => {
                    let (name, of) = match ty.ty.kind() {
                        ty::Adt(adt, _) => {
                            let v = match ty.variant_index {
                                Some(v) => adt.variant(v),
                                None => adt.non_enum_variant(),
                            };
                            (format!("{}", v.fields[f].name), self.path(adt.did()))
                        }
                        ty::Closure(def, _) => {
                            let names = self.tcx.closure_saved_names_of_captured_variables(*def);
                            (format!("{}", names[f]), format!("closure:{}", self.path(*def)))
                        }
                        ty::Tuple(_) => (format!("{}", f.as_u32()), "tuple".to_string()),
                        _ => (format!("{}", f.as_u32()), self.ty_s(ty.ty)),
                    };
                    txt = format!("{}.{}", txt, name);
                    proj.push(o(vec![("f", s(name)), ("of", s(of)), ("i", J::N(f.as_u32() as i64))]));
                }
                ProjectionElem::Downcast(n, vi) => {
                    let nm = match n {
                        Some(n) => format!("{}", n),
                        None => format!("{}", vi.as_u32()),
                    };
                    txt = format!("({} as {})", txt, nm);
                    proj.push(o(vec![("dc", s(nm))]));
                }
                ProjectionElem::Index(l) => {
                    txt = format!("{}[_{}]", txt, l.as_u32());
                    proj.push(o(vec![("idx", J::N(l.as_u32() as i64))]));
                }
                ProjectionElem::ConstantIndex { offset, from_end, .. } => {
                    txt = format!("{}[{}{}]", txt, if from_end { "-" } else { "" }, offset);
                    proj.push(o(vec![("cidx", J::N(offset as i64)), ("from_end", J::B(from_end))]));
                }
                ProjectionElem::Subslice { from, to, from_end } => {
                    txt = format!("{}[{}..{}{}]", txt, from, if from_end { "-" } else { "" }, to);
                    proj.push(o(vec![("sub", J::A(vec![J::N(from as i64), J::N(to as i64)])), ("from_end", J::B(from_end))]));
                }
                other => {
                    txt = format!("{}.<{:?}>", txt, other);
                    proj.push(o(vec![("other", s(format!("{:?}", other)))]));
                }
            }
            ty = ty.projection_ty(self.tcx, elem);
        }
        o(vec![("l", J::N(p.local.as_u32() as i64)), ("p", J::A(proj)), ("s", s(txt)), ("ty", s(self.ty_s(ty.ty)))])
    }

    fn byte_literal(&self, sc: &rustc_middle::mir::interpret::Scalar, t: Ty<'tcx>) -> Option<Vec<u8>> {
        let ty::Ref(_, inner, _) = t.kind() else { return None };
        let ty::Array(elem, len) = inner.kind() else { return None };
        if *elem != self.tcx.types.u8 {
            return None;
        }
        let n = len.try_to_target_usize(self.tcx)? as usize;
        let rustc_middle::mir::interpret::Scalar::Ptr(ptr, _) = sc else { return None };
        let (prov, off) = ptr.prov_and_relative_offset();
        let rustc_middle::mir::interpret::GlobalAlloc::Memory(alloc) = self.tcx.global_alloc(prov.alloc_id()) else { return None };
        let start = off.bytes() as usize;
        let a = alloc.inner();
        if start + n > a.len() {
            return None;
        }
        Some(a.inspect_with_uninit_and_ptr_outside_interpreter(start..start + n).to_vec())
    }

    fn val(&self, v: &ConstValue, t: Ty<'tcx>) -> J {
        match v {
            ConstValue::Scalar(sc) => match sc.try_to_scalar_int() {
                Ok(i) => {
                    if t.is_bool() {
                        o(vec![("bool", J::B(i.to_bits_unchecked() != 0))])
                    } else {
                        o(vec![("int", s(format!("{}", i.to_bits_unchecked()))), ("ty", s(self.ty_s(t)))])
                    }
                }
                Err(_) => {
                    // pointer to a byte-string literal `b".."` (&[u8; N]): export the bytes
                    if let Some(b) = self.byte_literal(sc, t) {
                        return match std::str::from_utf8(&b) {
                            Ok(st) => o(vec![("str", s(st)), ("bytes_lit", J::B(true))]),
                            Err(_) => o(vec![("bytes", s(format!("{:?}", b)))]),
                        };
                    }
                    o(vec![("ptr", s(self.ty_s(t)))])
                }
            },
            ConstValue::ZeroSized => {
                if let ty::FnDef(d, a) = t.kind() {
                    let args: Vec<J> = a.iter().map(|x| s(format!("{}", x))).collect();
                    o(vec![("fn", s(self.path(*d))), ("targs", J::A(args)), ("full", s(self.tcx.def_path_str_with_args(*d, a)))])
                } else {
                    o(vec![("zst", s(self.ty_s(t)))])
                }
            }
            ConstValue::Slice { .. } => match v.try_get_slice_bytes_for_diagnostics(self.tcx) {
                Some(b) => match std::str::from_utf8(b) {
                    Ok(st) => o(vec![("str", s(st))]),
                    Err(_) => o(vec![("bytes", s(format!("{:?}", b)))]),
                },
                None => o(vec![("slice", s(self.ty_s(t)))]),
            },
            ConstValue::Indirect { .. } => o(vec![("indirect", s(self.ty_s(t)))]),
        }
    }

    fn konst(&self, c: &Const<'tcx>) -> J {
        match c {
            Const::Unevaluated(u, t) => {
                if let Some(p) = u.promoted {
                    return o(vec![("promoted", J::N(p.as_u32() as i64)), ("ty", s(self.ty_s(*t)))]);
                }
                o(vec![("item", s(self.path(u.def))), ("ty", s(self.ty_s(*t)))])
            }
            Const::Val(v, t) => self.val(v, *t),
            Const::Ty(t, c) => o(vec![("tyconst", s(format!("{:?}", c))), ("ty", s(self.ty_s(*t)))]),
        }
    }

    fn operand(&self, body: &Body<'tcx>, op: &Operand<'tcx>) -> J {
        match op {
            Operand::Copy(p) => o(vec![("c", self.place(body, p))]),
            Operand::Move(p) => o(vec![("m", self.place(body, p))]),
            Operand::Constant(c) => o(vec![("k", self.konst(&c.const_))]),
            other => o(vec![("other", s(format!("{:?}", other)))]),
        }
    }

    fn rvalue(&self, body: &Body<'tcx>, rv: &Rvalue<'tcx>) -> J {
        match rv {
            Rvalue::Use(op, _) => o(vec![("use", self.operand(body, op))]),
            Rvalue::Ref(_, bk, p) => {
                let m = matches!(bk, mir::BorrowKind::Mut { .. });
                o(vec![("ref", self.place(body, p)), ("mut", J::B(m))])
            }
            Rvalue::RawPtr(_, p) => o(vec![("rawptr", self.place(body, p))]),
            Rvalue::BinaryOp(op, ops) => o(vec![
                ("bin", s(format!("{:?}", op))),
                ("a", self.operand(body, &ops.0)),
                ("b", self.operand(body, &ops.1)),
            ]),
            Rvalue::UnaryOp(op, a) => o(vec![("un", s(format!("{:?}", op))), ("a", self.operand(body, a))]),
            Rvalue::Cast(k, a, t) => o(vec![
                ("cast", s(format!("{:?}", k))),
                ("a", self.operand(body, a)),
                ("ty", s(self.ty_s(*t))),
            ]),
            Rvalue::Discriminant(p) => {
                let pty = p.ty(body, self.tcx).ty;
                let mut vars = vec![];
                if let ty::Adt(adt, _) = pty.kind() {
                    if adt.is_enum() {
                        for (vi, d) in adt.discriminants(self.tcx) {
                            vars.push(J::A(vec![s(format!("{}", d.val)), s(format!("{}", adt.variant(vi).name))]));
                        }
                    }
                }
                o(vec![("discr", self.place(body, p)), ("variants", J::A(vars)), ("adt", self.adt_of(pty))])
            }
            Rvalue::CopyForDeref(p) => o(vec![("use", o(vec![("c", self.place(body, p))]))]),
            Rvalue::Repeat(a, n) => o(vec![("repeat", self.operand(body, a)), ("n", s(format!("{:?}", n)))]),
            Rvalue::Aggregate(k, ops) => match &**k {
                AggregateKind::Adt(d, v, _, _, _) => {
                    let adt = self.tcx.adt_def(*d);
                    let var = adt.variant(*v);
                    let fs: Vec<(String, J)> = var
                        .fields
                        .iter()
                        .zip(ops.iter())
                        .map(|(f, op)| (format!("{}", f.name), self.operand(body, op)))
                        .collect();
                    o(vec![("agg", s("adt")), ("adt", s(self.path(*d))), ("variant", s(format!("{}", var.name))), ("fields", J::O(fs))])
                }
                AggregateKind::Closure(d, _) => {
                    let names = self.tcx.closure_saved_names_of_captured_variables(*d);
                    let fs: Vec<(String, J)> = names
                        .iter()
                        .zip(ops.iter())
                        .map(|(n, op)| (format!("{}", n), self.operand(body, op)))
                        .collect();
                    o(vec![("agg", s("closure")), ("closure", s(self.path(*d))), ("fields", J::O(fs))])
                }
                AggregateKind::Tuple => o(vec![("agg", s("tuple")), ("elems", J::A(ops.iter().map(|x| self.operand(body, x)).collect()))]),
                AggregateKind::Array(t) => o(vec![
                    ("agg", s("array")),
                    ("ty", s(self.ty_s(*t))),
                    ("elems", J::A(ops.iter().map(|x| self.operand(body, x)).collect())),
                ]),
                other => o(vec![
                    ("agg", s("other")),
                    ("what", s(format!("{:?}", other))),
                    ("elems", J::A(ops.iter().map(|x| self.operand(body, x)).collect())),
                ]),
            },
            other => o(vec![("other", s(format!("{:?}", other)))]),
        }
    }

    fn body(&self, did: DefId, key: &str, kind: &str, body: &Body<'tcx>) -> J {
        let tcx = self.tcx;
        let mut locals = vec![];
        for (_, d) in body.local_decls.iter_enumerated() {
            locals.push(o(vec![("ty", s(self.ty_s(d.ty))), ("adt", self.adt_of(d.ty))]));
        }
        let mut debug = vec![];
        for v in body.var_debug_info.iter() {
            if let mir::VarDebugInfoContents::Place(p) = &v.value {
                debug.push(o(vec![("name", s(format!("{}", v.name))), ("place", self.place(body, p))]));
            }
        }
        let mut blocks = vec![];
        for (_bb, data) in body.basic_blocks.iter_enumerated() {
            let mut stmts = vec![];
            for st in &data.statements {
                match &st.kind {
                    StatementKind::Assign(b) => {
                        let (pl, rv) = &**b;
                        stmts.push(o(vec![
                            ("k", s("assign")),
                            ("place", self.place(body, pl)),
                            ("rv", self.rvalue(body, rv)),
                            ("span", self.span_j(st.source_info.span)),
                        ]));
                    }
                    StatementKind::SetDiscriminant { place, variant_index } => {
                        stmts.push(o(vec![
                            ("k", s("setdiscr")),
                            ("place", self.place(body, place)),
                            ("variant", J::N(variant_index.as_u32() as i64)),
                            ("span", self.span_j(st.source_info.span)),
                        ]));
                    }
                    _ => {}
                }
            }
            let term = data.terminator();
            let sp = self.span_j(term.source_info.span);
            let t = match &term.kind {
                TerminatorKind::Call { func, args, destination, target, .. } => {
                    let fty = func.ty(body, tcx);
                    let mut v: Vec<(&str, J)> = vec![("k", s("call"))];
                    if let ty::FnDef(cd, cargs) = fty.kind() {
                        v.push(("callee", s(self.path(*cd))));
                        v.push(("callee_full", s(tcx.def_path_str_with_args(*cd, cargs))));
                        let env = TypingEnv::post_analysis(tcx, did);
                        match Instance::try_resolve(tcx, env, *cd, cargs) {
                            Ok(Some(i)) => {
                                let rd = i.def_id();
                                v.push(("rkey", s(self.path(rd))));
                                v.push(("resolved", s(tcx.def_path_str_with_args(rd, i.args))));
                                v.push(("local", J::B(rd.is_local())));
                                if let ty::InstanceKind::Virtual(..) = i.def {
                                    v.push(("virtual", J::B(true)));
                                }
                                v.push(("rcrate", s(tcx.crate_name(rd.krate).to_string())));
                            }
                            _ => {
                                v.push(("rkey", J::Null));
                            }
                        }
                        let targs: Vec<J> = cargs.iter().map(|x| s(format!("{}", x))).collect();
                        v.push(("targs", J::A(targs)));
                    } else {
                        v.push(("callee", J::Null));
                        v.push(("fnptr", self.operand(body, func)));
                    }
                    v.push(("args", J::A(args.iter().map(|a| self.operand(body, &a.node)).collect())));
                    v.push(("dest", self.place(body, destination)));
                    v.push(("target", match target {
                        Some(t) => J::N(t.as_u32() as i64),
                        None => J::Null,
                    }));
                    v.push(("span", sp));
                    o(v)
                }
                TerminatorKind::SwitchInt { discr, targets } => {
                    let ts: Vec<J> = targets
                        .iter()
                        .map(|(val, t)| J::A(vec![s(format!("{}", val)), J::N(t.as_u32() as i64)]))
                        .collect();
                    o(vec![
                        ("k", s("switch")),
                        ("on", self.operand(body, discr)),
                        ("targets", J::A(ts)),
                        ("otherwise", J::N(targets.otherwise().as_u32() as i64)),
                        ("span", sp),
                    ])
                }
                TerminatorKind::Assert { cond, expected, msg, target, .. } => {
                    let what = match &**msg {
                        mir::AssertKind::BoundsCheck { .. } => "bounds".to_string(),
                        mir::AssertKind::Overflow(op, _, _) => format!("overflow({:?})", op),
                        mir::AssertKind::OverflowNeg(_) => "overflow(Neg)".to_string(),
                        mir::AssertKind::DivisionByZero(_) => "div0".to_string(),
                        mir::AssertKind::RemainderByZero(_) => "rem0".to_string(),
                        _ => "other".to_string(),
                    };
                    o(vec![
                        ("k", s("assert")),
                        ("what", s(what)),
                        ("cond", self.operand(body, cond)),
                        ("expected", J::B(*expected)),
                        ("target", J::N(target.as_u32() as i64)),
                        ("span", sp),
                    ])
                }
                TerminatorKind::Return => o(vec![("k", s("return")), ("span", sp)]),
                TerminatorKind::Goto { target } => o(vec![("k", s("goto")), ("target", J::N(target.as_u32() as i64))]),
                TerminatorKind::Drop { target, place, .. } => o(vec![
                    ("k", s("drop")),
                    ("place", self.place(body, place)),
                    ("target", J::N(target.as_u32() as i64)),
                ]),
                TerminatorKind::FalseEdge { real_target, .. } => o(vec![("k", s("goto")), ("target", J::N(real_target.as_u32() as i64)), ("false", J::B(true))]),
                TerminatorKind::FalseUnwind { real_target, .. } => o(vec![("k", s("goto")), ("target", J::N(real_target.as_u32() as i64)), ("false", J::B(true))]),
                TerminatorKind::Unreachable => o(vec![("k", s("unreachable")), ("span", sp)]),
                TerminatorKind::UnwindResume => o(vec![("k", s("resume"))]),
                other => o(vec![("k", s("other")), ("what", s(format!("{:?}", std::mem::discriminant(other))))]),
            };
            blocks.push(o(vec![("cleanup", J::B(data.is_cleanup)), ("stmts", J::A(stmts)), ("term", t)]));
        }
        let mut v = vec![
            ("key", s(key)),
            ("kind", s(kind)),
            ("span", self.span_j(tcx.def_span(did))),
            ("derive", J::B(tcx.def_span(did).from_expansion())),
            ("args", J::N(body.arg_count as i64)),
            ("ret_ty", s(self.ty_s(body.local_decls[mir::RETURN_PLACE].ty))),
            ("locals", J::A(locals)),
            ("debug", J::A(debug)),
            ("blocks", J::A(blocks)),
        ];
        if kind == "closure" {
            let names = tcx.closure_saved_names_of_captured_variables(did);
            v.push(("captures", J::A(names.iter().map(|n| s(format!("{}", n))).collect())));
            v.push(("parent", s(self.path(tcx.parent(did)))));
        }
        if matches!(tcx.def_kind(did), DefKind::Fn | DefKind::AssocFn) {
            v.push(("pub", J::B(tcx.visibility(did).is_public())));
        }
        o(v)
    }
}

struct Cb {
    fmts: Vec<J>,
}

impl rustc_driver::Callbacks for Cb {
    fn after_expansion<'tcx>(&mut self, c: &Compiler, tcx: TyCtxt<'tcx>) -> Compilation {
        let krate = tcx.crate_name(rustc_span::def_id::LOCAL_CRATE).to_string();
        if std::env::var("MIRFACTS_OUT").is_ok() && WANT.contains(&krate.as_str()) && krate != "initia_proto" {
            let (_, ast) = &*tcx.resolver_for_lowering().borrow();
            let sm = c.sess.source_map();
            let mut v = FmtV { out: &mut self.fmts, sm };
            rustc_ast::visit::walk_crate(&mut v, ast);
        }
        Compilation::Continue
    }

    fn after_analysis<'tcx>(&mut self, _c: &Compiler, tcx: TyCtxt<'tcx>) -> Compilation {
        let outdir = match std::env::var("MIRFACTS_OUT") {
            Ok(d) => d,
            Err(_) => return Compilation::Continue,
        };
        let krate = tcx.crate_name(rustc_span::def_id::LOCAL_CRATE).to_string();
        if !WANT.contains(&krate.as_str()) {
            return Compilation::Continue;
        }
        // only library targets (the `schema` binaries have other crate names; a lib compiled
        // with --test would have the same name: refuse it so test code is never analysed)
        if tcx.sess.opts.test {
            return Compilation::Continue;
        }
        let cx = Cx { tcx, krate: krate.clone() };
        let sm = tcx.sess.source_map();
        let file_of = |d: DefId| -> String {
            let loc = sm.lookup_char_pos(tcx.def_span(d).source_callsite().lo());
            format!("{}", loc.file.name.prefer_local_unconditionally())
        };

        let mut bodies: Vec<(String, J)> = vec![];
        let mut consts: Vec<(String, J)> = vec![];
        let mut nbodies = 0i64;
        for ldid in tcx.hir_body_owners() {
            let did = ldid.to_def_id();
            let kind = tcx.def_kind(did);
            let derive = tcx.def_span(did).from_expansion();
            if krate == "initia_proto" && file_of(did).contains("/src/proto/") {
                continue;
            }
            let path = cx.path(did);
            if matches!(kind, DefKind::Const { .. } | DefKind::AssocConst { .. }) {
                if derive || path.ends_with("::_") {
                    continue;
                }
                let body = tcx.mir_for_ctfe(did);
                let j = cx.body(did, &path, "const", body);
                consts.push((path.clone(), o(vec![("ty", s(cx.ty_s(tcx.type_of(did).instantiate_identity().skip_norm_wip()))), ("body", j)])));
                continue;
            }
            if !matches!(kind, DefKind::Fn | DefKind::AssocFn | DefKind::Closure) {
                continue;
            }
            if derive {
                continue;
            }
            let (b, p) = tcx.mir_promoted(ldid);
            let body = b.borrow();
            let k = if matches!(kind, DefKind::Closure) { "closure" } else { "fn" };
            bodies.push((path.clone(), cx.body(did, &path, k, &body)));
            nbodies += 1;
            for (i, pb) in p.borrow().iter_enumerated() {
                let key = format!("{}::promoted[{}]", path, i.as_u32());
                bodies.push((key.clone(), cx.body(did, &key, "promoted", pb)));
            }
        }

        // ADT table and impl table
        let mut adts: Vec<(String, J)> = vec![];
        let mut impls: Vec<J> = vec![];
        let mut n_derive_impls = 0i64;
        for id in tcx.hir_free_items() {
            let did = id.owner_id.to_def_id();
            match tcx.def_kind(did) {
                DefKind::Struct | DefKind::Enum => {
                    let adt = tcx.adt_def(did);
                    let mut vars = vec![];
                    for v in adt.variants().iter() {
                        let fs: Vec<J> = v
                            .fields
                            .iter()
                            .map(|f| {
                                o(vec![
                                    ("name", s(format!("{}", f.name))),
                                    ("ty", s(cx.ty_s(tcx.type_of(f.did).instantiate_identity().skip_norm_wip()))),
                                ])
                            })
                            .collect();
                        vars.push(o(vec![("name", s(format!("{}", v.name))), ("fields", J::A(fs))]));
                    }
                    adts.push((
                        cx.path(did),
                        o(vec![
                            ("kind", s(if adt.is_enum() { "enum" } else { "struct" })),
                            ("file", s(file_of(did))),
                            ("variants", J::A(vars)),
                        ]),
                    ));
                }
                DefKind::Impl { .. } => {
                    // produced by a derive / attribute macro (a `macro_rules!` that spells out an
                    // impl is hand-written code, e.g. a table of TypeUrl impls)
                    let sp0 = tcx.def_span(did);
                    let derive = sp0.from_expansion()
                        && !matches!(sp0.ctxt().outer_expn_data().kind, rustc_span::hygiene::ExpnKind::Macro(rustc_span::hygiene::MacroKind::Bang, _));
                    if derive {
                        n_derive_impls += 1;
                    }
                    let tr = tcx.impl_opt_trait_ref(did).map(|t| tcx.def_path_str(t.skip_binder().def_id));
                    let self_ty = cx.ty_s(tcx.type_of(did).instantiate_identity().skip_norm_wip());
                    // keep the table small for the generated bindings: derive impls are only counted,
                    // except impls of prost::Message (needed by C20.R3: hand-written vs derived)
                    let is_msg = tr.as_deref().map(|t| t.ends_with("prost::Message") || t.ends_with("::Message")).unwrap_or(false);
                    if derive && !is_msg && krate == "initia_proto" {
                        continue;
                    }
                    let mut ac: Vec<(String, J)> = vec![];
                    let mut items: Vec<J> = vec![];
                    for it in tcx.associated_items(did).in_definition_order() {
                        items.push(s(format!("{}", it.name())));
                        if matches!(it.kind, ty::AssocKind::Const { .. }) {
                            let val = match tcx.const_eval_poly(it.def_id) {
                                Ok(v) => cx.val(&v, tcx.type_of(it.def_id).instantiate_identity().skip_norm_wip()),
                                Err(_) => J::Null,
                            };
                            ac.push((format!("{}", it.name()), val));
                        }
                    }
                    impls.push(o(vec![
                        ("trait", match tr {
                            Some(t) => s(t),
                            None => J::Null,
                        }),
                        ("self_ty", s(self_ty)),
                        ("self_adt", cx.adt_of(tcx.type_of(did).instantiate_identity().skip_norm_wip())),
                        ("derive", J::B(derive)),
                        ("span", cx.span_j(tcx.def_span(did))),
                        ("assoc_consts", J::O(ac)),
                        ("items", J::A(items)),
                    ]));
                }
                _ => {}
            }
        }

        let fmts = std::mem::take(&mut self.fmts);
        let root = o(vec![
            ("crate", s(krate.clone())),
            ("config", s(std::env::var("MIRFACTS_CONFIG").unwrap_or_default())),
            ("nonce", s(std::env::var("MIRFACTS_NONCE").unwrap_or_default())),
            ("rustc", s(option_env!("CFG_VERSION").unwrap_or("nightly"))),
            ("n_fn_bodies", J::N(nbodies)),
            ("n_derive_impls", J::N(n_derive_impls)),
            ("adts", J::O(adts)),
            ("consts", J::O(consts)),
            ("impls", J::A(impls)),
            ("formats", J::A(fmts)),
            ("bodies", J::O(bodies)),
        ]);
        let mut out = String::new();
        ser(&mut out, &root);
        let tmp = format!("{}/.{}.json.tmp.{}", outdir, krate, std::process::id());
        let fin = format!("{}/{}.json", outdir, krate);
        std::fs::write(&tmp, out).expect("mirfacts: cannot write fact file");
        std::fs::rename(&tmp, &fin).expect("mirfacts: cannot rename fact file");
        Compilation::Continue
    }
}

fn main() {
    let mut args: Vec<String> = std::env::args().collect();
    // as RUSTC_WORKSPACE_WRAPPER: argv[1] is the path of the real rustc
    args.remove(1);
    rustc_driver::run_compiler(&args, &mut Cb { fmts: vec![] });
}
