"""Rule bodies shared by several properties (each property names them with its own rule id)."""
from .common import *
from engine.analysis import storage_ops_deep, aggregates_deep, inline_walk, must_pass, call_sites


# --------------------------------------------------------------------------- derivation role (P12)


def is_derivation_fn(prog, key):
    """a local function is 'the hook-sender derivation' if it (transitively) calls bech32::encode
    and a SHA-256 finalize — its internals are C09's business."""
    seen = reachable_bodies(prog, [key])
    enc = sha = False
    for k in seen:
        b = prog.bodies[k]
        for _, t in b.calls():
            nm = call_name(t) or ""
            rk = t.get("resolved") or ""
            if nm.startswith("bech32::encode"):
                enc = True
            if "Sha256" in rk or "sha2" in rk or "digest::" in nm:
                sha = True
    return enc and sha


def derivation_call(prog, t):
    """t is Ok payload of derive(channel, native address, prefix): returns (a0,a1,a2) or None."""
    if t[0] == "payload":
        t = t[1]
    if t[0] == "trybranch":
        t = t[1]
    while t[0] == "call" and t[1] in ("std::result::Result::map_err", "std::result::Result::ok", "std::option::Option::ok_or", "std::option::Option::ok_or_else") and t[2]:
        t = t[2][0]  # derive(..).map_err(e)? carries the same Ok payload
        if t[0] == "trybranch":
            t = t[1]
    if t[0] == "call" and len(t[2]) == 3:
        cb = _body_of_call(prog, t)
        if cb is not None and is_derivation_fn(prog, cb.key):
            return t[2]
    return None


def _body_of_call(prog, t):
    if len(t) > 3 and t[3] and t[3][0] == "meta" and t[3][2] in prog.bodies:
        return prog.bodies[t[3][2]]
    return prog.bodies.get(t[1])


def hook_sender(R, env, prog, dctx, arm, variant, role_field, rule):
    hk = arm["handlers"][0]
    seen_roles = []
    _in_forms = [False]

    def boolean(t):
        if t[0] == "call" and t[1] in ("std::result::Result::map_or", "std::option::Option::map_or") and len(t[2]) == 3 and t[2][1] == ("const", "bool", False) and t[2][2][0] == "closure":
            # derive(..).map_or(false, |expected| info.sender == expected)
            r_ = closure_result(prog, t[2][2], params={2: ("payload", t[2][0], "Ok/Some")})
            return boolean(r_) if r_ is not None else None
        if t[0] == "call" and t[1] in ("std::result::Result::is_ok_and", "std::option::Option::is_some_and") and len(t[2]) == 2 and t[2][1][0] == "closure":
            r_ = closure_result(prog, t[2][1], params={2: ("payload", t[2][0], "Ok/Some")})
            return boolean(r_) if r_ is not None else None
        if t[0] == "call" and t[1] not in EQ and _body_of_call(prog, t) is not None and (_body_of_call(prog, t).j.get("ret_ty") or "") == "bool" and not _in_forms[0]:
            # a predicate of a value object (`HookSender::resolve(&config, &info.sender).is_staker()`): the test it stands for
            from engine.analysis import forms as _forms_b
            _in_forms[0] = True
            try:
                for f_ in _forms_b(prog, t, 4):
                    if f_ != t:
                        r_ = boolean(f_)
                        if r_ is not None:
                            return r_
            finally:
                _in_forms[0] = False
            return None
        if t[0] != "call" or t[1] not in EQ:
            return None
        a, b = t[2][0], t[2][1]
        for x, y in ((a, b), (b, a)):
            if is_sender(x):
                d = derivation_call(prog, y)
                if d is None:
                    continue
                ch = loaded_field(prog, d[0], "config", ["protocol_chain_config", "ibc_channel_id"], "staking")
                pf = loaded_field(prog, d[2], "config", ["protocol_chain_config", "account_address_prefix"], "staking")
                base, path = field_path(d[1])
                seen_roles.append(".".join(path))
                ad = loaded_field(prog, d[1], "config", ["native_chain_config", role_field], "staking")
                if ch and pf and ad:
                    return EQ[t[1]]
        return None

    G = Guard("hook:" + role_field, boolean=boolean)
    found = []
    ok, off = arm_guarded(prog, dctx, arm, G, env.depth, found)
    if not ok and not seen_roles:
        # no derivation is compared at all: is the sender compared with a STORED copy of the derived accounts (a cache
        # item refreshed when the configuration is written)?  Whether such a cache equals derive(current config) is an
        # invariant over all writers of CONFIG, which this rule does not model: not decided.  What is decided: every
        # site that may change the sections the derivation reads also rewrites the cache (a stale cache is a violation).
        from engine.analysis import forms as _forms_h
        hctx_ = handler_ctx(prog, dctx, arm)
        caches = set()
        for c_, p_ in inline_walk(prog, hctx_, 3):
            for _, atom in c_.atoms():
                t_ = atom[1]
                if atom[0] == "bool" and t_[0] == "call" and t_[1] in EQ and len(t_[2]) == 2 and any(is_sender(x_) for x_ in t_[2]):
                    for x_ in t_[2]:
                        if is_sender(x_):
                            continue
                        for f_ in _forms_h(prog, x_, 3):
                            for s_ in subterms(f_):
                                if s_[0] == "call" and s_[1] in ("cw_storage_plus::Item::may_load", "cw_storage_plus::Item::load") and s_[2] and ns_of(prog, s_[2][0]) not in (None, "config", "state"):
                                    caches.add(ns_of(prog, s_[2][0]))
        if caches:
            sites_ = site_contexts(prog, "staking", env)
            READ = {"native_chain_config": ("staker_address", "reward_collector_address"), "protocol_chain_config": ("ibc_channel_id", "account_address_prefix")}
            ch_ = {}
            for site_, c_ in sites_.items():
                if site_ in ("migrate", "query", "sudo", "reply"):
                    continue  # (layout migrations run against stores of other versions: not judged here)
                for op_ in storage_ops_deep(prog, c_, env.depth):
                    if op_["kind"] != "w" or ns_of(prog, op_["args"][0]) != "config" or item_crate(op_["args"][0]) != "staking":
                        continue
                    for base_, d_ in write_value_alternatives(prog, op_, "config") or [(("unknown",), {})]:
                        whole = base_[0] == "agg" or not is_stored_base(prog, base_, "config", "staking")
                        for sec_, subs_ in READ.items():
                            hit_ = whole or any(p_[0] == sec_ and (len(p_) == 1 or p_[1] in subs_) for p_ in d_)
                            if hit_:
                                ch_.setdefault(sec_, {}).setdefault(site_, op_)
            for fld_, ss_ in sorted(ch_.items()):
                for site_, op_ in sorted(ss_.items()):
                    c0 = sites_[site_]
                    worlds_ = [("", c0)]
                    if site_ == "UpdateConfig":
                        other = "protocol_chain_config" if fld_ == "native_chain_config" else "native_chain_config"
                        mf = lambda n_: (lambda t_: msg_field(t_, "UpdateConfig", n_))
                        worlds_ = [(":only-" + fld_, c0.assume((mf(fld_), ("ok", True)), (mf(other), ("ok", False))).settle())]
                    for wn_, w_ in worlds_:
                        cw = [o_ for o_ in storage_ops_deep(prog, w_, env.depth) if o_["kind"] == "w" and ns_of(prog, o_["args"][0]) in caches]
                        good_ = bool(cw) and any(must_pass(w_, o_["root_bb"]) for o_ in cw)
                        R.ob(rule, "%s:cache-refreshed:%s%s" % (variant, site_, wn_), good_, "%s can change config.%s, which the ibc-hooks sender derivation reads, without rewriting the stored senders (%s): the authentication would keep using the accounts of the old configuration" % (site_, fld_, sorted(caches)), loc=op_["loc"], fn=op_["fn"])
            R.set_undecided([rule], "the ibc-hooks sender is compared with a stored copy (%s) of the derived accounts; that the copy equals derive(current config) is an invariant over all CONFIG writers that is not modelled" % ", ".join(sorted(caches)))
            R.ob(rule, variant, ok, "success exit reachable without `info.sender == derive(..)` (compared with a stored copy instead)", fn=hk)
            R.clear_undecided([rule])
            return ok
    R.ob(
        rule,
        variant,
        ok,
        "success exit reachable without `info.sender == derive(config channel, native_chain_config.%s, protocol prefix)`; derivation comparisons seen use address role(s) %s; offending exit %s"
        % (role_field, sorted(set(seen_roles)) or "none", off),
        loc=off[0]["loc"] if off else (found[0]["loc"] if found else None),
        fn=hk,
        found=found,
    )
    return ok


# --------------------------------------------------------------------------- ownership


def pending_owner_payload(prog, t, crate):
    """the Some payload of the stored pending_owner — also after `.take()` / `.filter(..)` / `.as_ref()`"""
    if t[0] != "payload":
        return False
    if loaded_field(prog, t[1], "state", ["pending_owner"], crate):
        return True
    from engine.analysis import ok_payload
    t2 = ok_payload(t[1], t[2])
    return t2[0] == "payload" and loaded_field(prog, t2[1], "state", ["pending_owner"], crate)


def accept_ownership(R, env, prog, crate, dctx, arm, rule):
    hk = arm["handlers"][0]
    hctx = handler_ctx(prog, dctx, arm)

    def boolean(t):
        if t[0] != "call" or t[1] not in EQ:
            return None
        a, b = t[2][0], t[2][1]
        for x, y in ((a, b), (b, a)):
            if is_sender(x) and pending_owner_payload(prog, y, crate):
                return EQ[t[1]]
            # the Option-level spelling: state.pending_owner == Some(info.sender)
            if x[0] == "agg" and x[2] == "Some" and len(x[3]) == 1 and is_sender(x[3][0][2]) and loaded_field(prog, y, "state", ["pending_owner"], crate):
                return EQ[t[1]]
        return None

    G = Guard("nominee", boolean=boolean)
    found = []
    ok, off = guarded(hctx, G, prog, env.depth, found)
    R.ob(rule, "AcceptOwnership:nominee-guard", ok, "success exit reachable without `pending_owner == info.sender`: %s" % (off,), loc=off["loc"] if off else None, fn=hk, found=found)
    # Admin::set behind the same cut, with the nominee as value
    edges = pass_edges(hctx, G, prog, env.depth)
    from engine.analysis import fail_world
    reach = fail_world(hctx.with_removed(edges), G).settle().T.reach
    n = 0
    for op in storage_ops_deep(prog, hctx, env.depth):
        if op["type"] == "Admin" and op["op"] == "set" and ns_of(prog, op["args"][0]) == "admin":
            n += 1
            R.ob(rule, "AcceptOwnership:set-behind-guard", op["root_bb"] not in reach, "Admin::set reachable without the nominee test", loc=op["loc"], fn=hk)
            val = op["args"][2]
            from engine.analysis import forms as _forms_ao
            # the nominee, spelled as the stored pending owner (possibly handed back by a helper such as
            # `state.claim_nomination(..)?`) or as info.sender — the same account behind the `==` guard above
            behind = op["root_bb"] not in reach
            good = any(f_[0] == "agg" and f_[2] == "Some" and (pending_owner_payload(prog, f_[3][0][2], crate) or (behind and is_sender(f_[3][0][2]))) for f_ in _forms_ao(prog, val, 3, op.get("assumptions", ())))
            R.ob(rule, "AcceptOwnership:new-admin-is-nominee", good, "Admin::set value is %s, expected Some(pending_owner)" % fmt(val)[:200], loc=op["loc"], fn=hk)
    R.floor(rule, "Admin::set in AcceptOwnership", n, 1)
    return ok


def admin_writers(R, env, prog, crate, rule):
    """ADMIN writers = {instantiate, AcceptOwnership}."""
    dctx, table = handlers(prog, crate)
    allowed = {"instantiate", "AcceptOwnership"}
    sites = {}
    roots = {"instantiate": ["%s::contract::instantiate" % crate]}
    for ep in ("migrate", "sudo", "reply", "query"):
        if prog.body("%s::contract::%s" % (crate, ep)):
            roots[ep] = ["%s::contract::%s" % (crate, ep)]
    for v, arm in table.items():
        roots[v] = [h for h in arm["handlers"] if h]
    from engine.analysis import transitive_storage_writes

    for site, rk in roots.items():
        for op in transitive_storage_writes(prog, rk):
            if ns_of(prog, op["args"][0]) == "admin":
                sites.setdefault(site, []).append(op)
    for site, ops in sites.items():
        R.ob(rule, "admin-writer:" + site, site in allowed, "ADMIN is written from %s (%s), which is not in the reviewed writer table {instantiate, AcceptOwnership}" % (site, ops[0]["fn"]), loc=ops[0]["loc"], fn=ops[0]["fn"])
    R.floor(rule, "ADMIN writer sites (%s)" % crate, len(sites), 2)


# --------------------------------------------------------------------------- forced recovery


def selected_packets_pred(t):
    # the `selected_packets` field of the RecoverPendingIbcTransfers message (ABI name)
    return t[0] == "field" and t[2] == "selected_packets" and t[1][0] == "variant" and t[1][2] == "RecoverPendingIbcTransfers"


def forced_recover_admin(R, env, prog, dctx, arm, rule):
    hk = arm["handlers"][0]
    hctx = handler_ctx(prog, dctx, arm)
    rem, n = world_edges(hctx, selected_packets_pred, True)
    R.worlds += 2
    w = hctx.with_removed(rem).settle()
    found = []
    ok, off = guarded(w, admin_guard(prog, "staking"), prog, env.depth, found)
    if not ok:
        # the check may sit in the dispatcher arm (`if selected_packets.is_some() { assert_admin()? } recover(..)`):
        # the arm and the handler together, in the world selected_packets = Some
        ok2, off2 = arm_guarded(prog, dctx.assume_ok(selected_packets_pred, True), arm, admin_guard(prog, "staking"), env.depth, found)
        if ok2:
            ok, off = True, None
            n = max(n, 1)
    if ok and n == 0:
        # no switch on the Option itself (`RecoverSelection::from(selected_packets).is_forced()`): the requirement is
        # still conditional on selected_packets if, evaluated in the world selected_packets = None, the same handler
        # succeeds without the admin check
        w_none = hctx.assume_ok(selected_packets_pred, False).settle()
        if not guarded(w_none, admin_guard(prog, "staking"), prog, env.depth, [])[0]:
            n = 1
    R.ob(rule, "RecoverPendingIbcTransfers:forced=>admin", ok, "in the world selected_packets=Some a success exit is reachable without assert_admin: %s" % (off,), loc=off["loc"] if off else None, fn=hk, found=found)
    R.floor(rule, "tests of selected_packets in recover", n, 1)
    # the non-forced world must remain open to everyone (no false claim): it has a success exit
    rem2, _ = world_edges(hctx, selected_packets_pred, False)
    w2 = hctx.with_removed(rem2)
    R.info(rule, "world selected_packets=None: success exits reachable = %s (permissionless path exists)" % any(e["kind"] != "err" for e in exits(w2)))
    return ok


# --------------------------------------------------------------------------- withdraw


def find_msgs(prog, ctx, depth, names):
    """message aggregates by ADT suffix: list of (ctx, path, bb, term)."""
    out = []
    for c, path, bi, si, t in aggregates_deep(prog, ctx, lambda adt, var: any(adt.endswith(n) for n in names), depth):
        out.append((c, path, bi, t))
    return out


def agg_field(t, name):
    if t[0] == "agg":
        for _, n, v in t[3]:
            if n == name:
                return v
    return None


def withdraw_pays_caller(R, env, prog, dctx, arm, rule):
    hk = arm["handlers"][0]
    hctx = handler_ctx(prog, dctx, arm)
    msgs = find_msgs(prog, hctx, env.depth, ["bank::v1beta1::MsgSend", "cosmwasm_std::BankMsg", "transfer::v1::MsgTransfer"])
    n = 0
    for c, path, bi, t in msgs:
        if t[1].endswith("MsgTransfer") and path:
            continue  # oracle/ibc helper aggregates are not reachable from Withdraw's own response here
        to = agg_field(t, "to_address") or agg_field(t, "receiver")
        n += 1
        R.ob(rule, "Withdraw:payee", to is not None and is_sender(to), "value-moving message %s pays %s, expected info.sender" % (t[1].split("::")[-1], fmt(to)[:120] if to else None), loc=c.body.loc(bi), fn=hk)
    R.floor(rule, "value-moving messages in Withdraw", n, 1)
    # request keys
    k = 0
    for op in storage_ops_deep(prog, hctx, env.depth):
        if ns_of(prog, op["args"][0]) == "unstake_requests" and op["op"] in ("may_load", "load", "remove", "save", "update"):
            key = op["args"][2]
            good = key[0] == "tuple" and len(key[1]) == 2 and is_sender(key[1][1])
            k += 1
            R.ob(rule, "Withdraw:request-key:" + op["op"], good, "unstake request accessed under key %s, expected (batch id, info.sender)" % fmt(key)[:160], loc=op["loc"], fn=hk)
    R.floor(rule, "unstake_requests accesses in Withdraw", k, 2)


# --------------------------------------------------------------------------- sites and who-may-write (P13)


def site_contexts(prog, crate, env):
    """site name -> Ctx: every ABI entry point and every ExecuteMsg variant (handler bound to the
    dispatcher's terms).  Sites are ABI names, not function names."""
    out = {}
    for ep in ("instantiate", "migrate", "sudo", "reply", "query"):
        b = prog.body("%s::contract::%s" % (crate, ep))
        if b is not None:
            out[ep] = Ctx(b)
    dctx, table = handlers(prog, crate)
    for v, arm in table.items():
        if arm["calls"] and prog.body(arm["handlers"][0]):
            out[v] = handler_ctx(prog, dctx, arm)
    return out


def write_value_alternatives(prog, op, ns):
    """for a storage write op: list of (base, delta) of the value written; `update(closure)` is read
    as save(closure(load()?)?) (engine.analysis._normalise_op).  The value is taken in the first
    inlining form in which it is `loaded value + field updates` or a fresh aggregate."""
    from engine.analysis import forms
    v = op.get("value")
    if v is None:
        if op["op"] == "save":
            v = op["args"][-1]
        else:
            return None
    first = None
    asm = op.get("assumptions", ())
    def settle_agg(f_):
        # a fresh aggregate whose fields are components of a helper's result (`IBCTransfer { status, ..lookup(..)?.0 }`):
        # the same aggregate with those components spelled out, so that struct-update syntax is recognised
        if f_[0] == "agg" and f_[3] and not f_[1].startswith(("std::", "core::", "alloc::")):
            g_ = ("agg", f_[1], f_[2], tuple((k_, n_, _head_resolved(prog, v_, asm)) for k_, n_, v_ in f_[3]))
            return g_
        if f_[0] == "phi":
            return ("phi", tuple(settle_agg(a_) for a_ in f_[1]))
        return f_

    for f in forms(prog, v, 2, asm):
        alts = [(base, _drop_identity(base, {p_: _head_resolved(prog, x_, asm) for p_, x_ in d.items()})) for base, d in struct_deltas(settle_agg(f))]
        if first is None:
            first = alts
        if all(base[0] == "agg" or _loadish(base) for base, _ in alts):
            return alts
    return first


def _head_resolved(prog, v, assumptions=()):
    """a field's new value whose head is a local helper's result (`split(..).remaining`, `helper(..)?`): the
    same value with the helper inlined in the current world, so that rules see the arithmetic"""
    from engine.analysis import forms

    def unresolved(x):
        # a COMPONENT of a local helper's result: field (field ..) of [payload of] a local call
        if x[0] != "field":
            return False
        y = x
        while y[0] in ("field", "variant", "payload", "trybranch"):
            y = y[1]
        return y[0] == "call" and _body_of_call(prog, y) is not None

    if not unresolved(v):
        return v
    for f in forms(prog, v, 3, assumptions):
        if not unresolved(f):
            return f
    return v


def _drop_identity(base, d):
    """`x.f = x.f` (e.g. `cfg.f = opt.unwrap_or(cfg.f)` in the world opt = None) changes nothing"""
    out = {}
    for path, val in d.items():
        t = base
        for n in path:
            t = ("field", t, n)
        if norm(val) == norm(t):
            continue
        out[path] = val
    return out


def written_agg(prog, op):
    """the value written by a storage op in the first inlining form in which it is a fresh aggregate
    (a constructor helper such as `initial_config(..)?` is looked through); else the value as written."""
    from engine.analysis import forms
    v = op.get("value")
    if v is None:
        v = op["args"][-1]
    from engine.analysis import _ctor_norm
    from engine.mir import intern
    for f in forms(prog, v, 3, op.get("assumptions", ())):
        if f[0] == "agg":
            # fields taken from another constructor (`S { a, ..S::new(..) }`) are that constructor's fields
            flds = tuple(("fld", n, _ctor_norm(prog, x)) for _, n, x in f[3])
            return intern(("agg", f[1], f[2], flds))
    return v


def _loadish(base):
    b = unwrap_payload(base)
    return b[0] == "call" and b[1].startswith("cw_storage_plus::") and b[1].split("::")[-1] in ("load", "may_load")


def effective_delta(prog, base, d, ns, crate):
    """the fields of the stored struct that (base, d) changes, as {path: new value}: for `loaded
    value + updates` that is d; for a fresh aggregate (struct-update syntax `S { f: v, ..loaded }`)
    the fields whose value is not the same field of the loaded value.  None if the base is neither."""
    if is_stored_base(prog, base, ns, crate):
        return dict(d)
    if base[0] == "agg":
        out = {}
        for _, n, v in base[3]:
            if v[0] == "field" and v[2] == n and is_stored_base(prog, v[1], ns, crate):
                continue
            out[(n,)] = v
        for path, val in d.items():
            out[path] = val
        return out
    return None


def is_stored_base(prog, base, ns, crate):
    if base == ("stored", ns):
        return True
    if base[0] == "payload" and base[1] == ("stored", ns):
        return True  # Option<T> parameter of Map::update unwrapped
    return base[0] == "payload" and is_load(prog, base, ns, crate)


def field_change_sites(prog, env, crate, ns, fields, sites=None):
    """sites (ABI names) from which one of `fields` of the struct stored under `ns` may change.
    A write whose value is not `loaded value + field updates` (or a fresh aggregate) counts as
    changing every field (fail closed)."""
    sites = sites or site_contexts(prog, crate, env)
    out = {}
    n_ops = 0
    for site, c in sites.items():
        for op in storage_ops_deep(prog, c, env.depth):
            if op["kind"] != "w" or ns_of(prog, op["args"][0]) != ns or item_crate(op["args"][0]) != crate:
                continue
            if "migrations::states" in (storage_item_of(op["args"][0]) or ""):
                continue
            n_ops += 1
            alts = write_value_alternatives(prog, op, ns)
            changed = set()
            if alts is None:
                changed = set(fields)
            else:
                for base, d in alts:
                    if base[0] == "agg":
                        for f in fields:
                            v = agg_field(base, f)
                            if v is None or not (v[0] == "field" and v[2] == f and is_stored_base(prog, v[1], ns, crate)):
                                changed.add(f)
                    elif not is_stored_base(prog, base, ns, crate):
                        changed |= set(fields)
                    for p in d:
                        if p[0] in fields:
                            changed.add(p[0])
            for f in changed:
                out.setdefault(f, {}).setdefault(site, op)
    return out, n_ops


# --------------------------------------------------------------------------- money terms


# combinators whose Ok / Some payload IS the payload of their receiver: `x.map_err(e)?` is `x?` as a value
PAYLOAD_PRESERVING = ("std::result::Result::map_err", "std::option::Option::ok_or", "std::option::Option::ok_or_else", "std::result::Result::ok", "std::result::Result::inspect_err")


def unwrap_payload(t):
    """the Option / Result valued term whose payload t is (looking through `?` and the combinators that keep
    the payload)"""
    inside = False
    while t[0] in ("payload", "trybranch") or (inside and t[0] == "call" and t[1] in PAYLOAD_PRESERVING and t[2]):
        inside = inside or t[0] == "payload"
        t = t[1] if t[0] in ("payload", "trybranch") else t[2][0]
    return t


def is_paid(prog, t, denom_path):
    """t = Ok payload of cw_utils::must_pay(info, CONFIG.<denom_path>) — the single coin paid with the message."""
    if t[0] != "payload":
        return False
    c = unwrap_payload(t)
    if c[0] != "call" or c[1] != "cw_utils::must_pay":
        return False
    return is_param_of_type(c[2][0], "MessageInfo") and loaded_field(prog, c[2][1], "config", denom_path, "staking")


def coin_parts(t, _depth=0, prog=None):
    """(amount term, denom term) of a coin-valued term in any of the repo's spellings."""
    a, d = _coin_parts(t, _depth, prog)
    import engine.mir as _m
    pr = prog or _m.CURRENT
    if pr is not None:
        # `liquid_coin(&config, amount).denom`: the component of a local constructor's result
        a = _head_resolved(pr, a) if a is not None else a
        d = _head_resolved(pr, d) if d is not None else d
    return a, d


def _coin_parts(t, _depth=0, prog=None):
    if t[0] == "agg" and t[2] == "Some" and len(t[3]) == 1:
        t = t[3][0][2]
    if t[0] == "call" and t[1] == "cosmwasm_std::Coin::new" and len(t[2]) == 2:
        return t[2][0], t[2][1]
    if t[0] == "agg" and t[1].endswith("Coin"):
        return agg_field(t, "amount"), agg_field(t, "denom")
    if t[0] in ("phi", "upd", "mut", "param", "field", "payload"):
        return term_field(t, "amount"), term_field(t, "denom")
    if t[0] == "call" and _depth < 1:
        # a local coin-constructor helper (`proto_coin(amount)`): look through it (head only:
        # the arguments, e.g. the minted amount, stay as written)
        import engine.mir as _m
        from engine.analysis import resolve_head
        pr = prog or _m.CURRENT
        if pr is not None:
            r = resolve_head(pr, t)
            if r != t:
                return _coin_parts(r, _depth + 1, pr)
    return None, None


def term_field(t, name):
    from engine.mir import field_of
    return field_of(t, name)


def vec_elems(t):
    if t[0] == "call" and t[1] == "vec!":
        return list(t[2])
    return None


def same(a, b):
    """identity by origin; a value named through a local helper on one side and spelled out on the
    other is the same value (compared in their inlining forms)"""
    if a is None or b is None:
        return False
    if norm(a) == norm(b):
        return True
    import engine.mir as _m
    if _m.CURRENT is None:
        return False
    has_local = lambda t: any(s_[0] == "call" and _m.CURRENT.body(s_[1]) is not None for s_ in subterms(t)) or any(s_[0] == "mut" and _m.CURRENT.body(s_[2]) is not None for s_ in subterms(t))
    if not (has_local(a) or has_local(b)):
        return False
    return same_any(_m.CURRENT, a, b)


def same_any(prog, a, b, depth=2, assumptions=()):
    """a and b denote the same value: identical as written, or identical in some pair of their
    inlining forms (one side may name a helper's result, the other spell the helper out)"""
    if a is None or b is None:
        return False
    if norm(a) == norm(b):
        return True
    from engine.analysis import forms
    fb = [norm(f) for f in forms(prog, b, depth, assumptions)]
    return any(norm(f) in fb for f in forms(prog, a, depth, assumptions))


def funds_coin(prog, t, denom_path=("protocol_chain_config", "ibc_token_denom")):
    """t = info.funds.iter().find(|c| c.denom == CONFIG.<denom_path>).unwrap()  (the coin of that denom sent along)."""
    if t[0] == "call" and t[1] == "std::ops::Index::index" and len(t[2]) == 2 and t[2][1][0] == "payload":
        # funds[funds.iter().position(|c| c.denom == d)?]: the coin that `find` with the same predicate returns
        pc = unwrap_payload(t[2][1])
        if pc[0] == "call" and pc[1].endswith("Iterator::position") and len(pc[2]) == 2 and norm(pc[2][0]) == norm(t[2][0]):
            return funds_coin(prog, ("payload", ("call", "std::iter::Iterator::find", (pc[2][0], pc[2][1])), "Ok/Some"), denom_path)
    if t[0] != "payload":
        return False
    c = unwrap_payload(t)
    if c[0] != "call" or not c[1].endswith("Iterator::find"):
        return False
    src, clo = c[2][0], c[2][1]
    if clo[0] != "closure":
        return False
    base, path = field_path(src)
    if not (path == ["funds"] and is_param_of_type(base, "MessageInfo")):
        return False
    res = closure_result(prog, clo, params={2: ("elem", "funds")})
    if res is None or res[0] != "call" or res[1] != "std::cmp::PartialEq::eq":
        return False
    a, b = res[2]
    for x, y in ((a, b), (b, a)):
        if x == ("field", ("elem", "funds"), "denom") and loaded_field(prog, y, "config", list(denom_path), "staking"):
            return True
    return False


def state_writes(prog, hctx, env, ns="state", crate="staking"):
    out = []
    for op in storage_ops_deep(prog, hctx, env.depth):
        if op["kind"] == "w" and ns_of(prog, op["args"][0]) == ns and item_crate(op["args"][0]) == crate:
            out.append((op, write_value_alternatives(prog, op, ns)))
    return out


def transfers(prog, hctx, env):
    """every MsgTransfer constructed (deep, with parameters bound to the handler's terms)."""
    out = []
    for c, path, bi, si, t in aggregates_deep(prog, hctx, lambda adt, var: adt.endswith("transfer::v1::MsgTransfer"), env.depth + 1):
        amount, denom = coin_parts(agg_field(t, "token") or ("none",), 0, prog)
        amount_raw = _coin_parts(agg_field(t, "token") or ("none",), 0, prog)[0]
        out.append({
            "amount_raw": amount_raw, "term": t, "receiver": agg_field(t, "receiver"), "amount": amount, "denom": denom, "sender": agg_field(t, "sender"),
            "channel": agg_field(t, "source_channel"), "port": agg_field(t, "source_port"), "timeout": agg_field(t, "timeout_timestamp"),
            "memo": agg_field(t, "memo"), "path": path, "root_bb": path[0][1] if path else bi, "loc": c.body.loc(bi, si), "ctx": c, "bb": bi,
        })
    return out


def _local_body(t):
    import engine.mir as _m
    if _m.CURRENT is None:
        return None
    if len(t) > 3 and t[3] and t[3][0] == "meta" and t[3][2]:
        for pr in _m.PROGRAMS:
            b = pr.bodies.get(t[3][2])
            if b is not None and b.kind == "fn":
                return b
    return None


def term_in_all_paths(t, hit, inside=False, _memo=None):
    """does every phi-resolution of t contain, inside the argument of a message-adding Response
    builder call, a subterm accepted by `hit`?  (P8 on terms: at a phi all alternatives must)"""
    from engine.mir import intern
    if _memo is None:
        _memo = {}
        t = intern(t)
    if not isinstance(t, tuple):
        return False
    k = (id(t), inside)
    if k in _memo:
        return _memo[k]
    _memo[k] = False
    if not t or not isinstance(t[0], str):
        r = any(term_in_all_paths(x, hit, inside, _memo) for x in t)
    elif inside and hit(t):
        r = True
    elif t[0] == "phi":
        r = all(term_in_all_paths(a, hit, inside, _memo) for a in t[1])
    elif t[0] == "call" and t[1].startswith("cosmwasm_std::Response::") and t[1].split("::")[-1] in ("add_message", "add_messages", "add_submessage", "add_submessages"):
        r = term_in_all_paths(t[2][0], hit, False, _memo) or term_in_all_paths(t[2][1], hit, True, _memo)
    elif t[0] == "call" and _local_body(t) is not None:
        # a message handed to a local helper is in the Response only if the helper returns it on
        # every path: look at what the helper returns, not at what it is given
        import engine.mir as _m
        from engine.analysis import resolve_head, ok_payload
        pr = _local_body(t).prog
        rt = resolve_head(pr, t, (), 1)
        if rt == t:
            r = False
        else:
            r = term_in_all_paths(ok_payload(rt) if rt[0] in ("agg", "phi") else rt, hit, inside, _memo)
    else:
        r = any(term_in_all_paths(x, hit, inside, _memo) for x in t[1:] if isinstance(x, tuple))
    _memo[k] = r
    return r


def response_contains_call_at(hctx, root_bb):
    """does the result of the call in block root_bb of the handler flow into the Response of every
    success exit, on every path?  (the SubMsg/CosmosMsg built by that call is what reaches the chain)"""
    b = hctx.body
    t = b.blocks[root_bb]["term"]
    if t["k"] != "call":
        return False
    want = norm(hctx.T.call_term(t, root_bb))
    n = 0
    for bb, term in success_terms(hctx):
        n += 1
        if not term_in_all_paths(term, lambda s: norm(s) == want):
            return False
    return n > 0


# --------------------------------------------------------------------------- token-factory roles (P12)


def tf_messages(prog, hctx, env):
    """token-factory message aggregates reachable (deep) from the handler, with bound terms:
    list of dict(kind in mint|burn|create, sender, amount, denom, holder, root_bb, loc)."""
    out = []
    for c, path, bi, si, t in aggregates_deep(prog, hctx, lambda adt, var: adt.split("::")[-1] in ("MsgMint", "MsgBurn", "MsgCreateDenom") and "tokenfactory" in adt, env.depth):
        kind = {"MsgMint": "mint", "MsgBurn": "burn", "MsgCreateDenom": "create"}[t[1].split("::")[-1]]
        amount, denom = coin_parts(agg_field(t, "amount") or ("none",), 0, prog)
        out.append({
            "kind": kind, "sender": agg_field(t, "sender"), "amount": amount, "denom": denom,
            "holder": agg_field(t, "mint_to_address") or agg_field(t, "burn_from_address"), "subdenom": agg_field(t, "subdenom"),
            "root_bb": path[0][1] if path else bi, "loc": c.body.loc(bi, si), "adt": t[1], "term": t,
        })
    return out


def lst_denom(prog, t):
    return t is not None and loaded_field(prog, t, "config", ["liquid_stake_token_denom"], "staking")


def ibc_denom(prog, t):
    return t is not None and loaded_field(prog, t, "config", ["protocol_chain_config", "ibc_token_denom"], "staking")


def recipient_term(prog, t, _again=True):
    """mint_to.unwrap_or(info.sender): Option::unwrap_or_else(msg.mint_to, || info.sender), unwrap_or,
    or the match spelling (a merge of Some-payload of mint_to and info.sender); possibly handed
    through a local helper."""
    if t is None:
        return False
    if t[0] == "phi":
        alts = t[1]
        return len(alts) == 2 and any(is_sender(a) for a in alts) and any(a[0] == "payload" and _is_msg_field(a[1], "mint_to") for a in alts)
    if _again and (t[0] == "payload" or (t[0] == "field" and t[1][0] in ("payload", "variant"))):
        from engine.analysis import forms
        for f in forms(prog, t, 3):
            if f != t and recipient_term(prog, f, False):
                return True
        return False
    if t[0] != "call":
        return False
    if t[1] == "std::option::Option::unwrap_or_else":
        res = closure_result(prog, t[2][1])
        return res is not None and is_sender(res) and _is_msg_field(t[2][0], "mint_to")
    if t[1] == "std::option::Option::unwrap_or":
        return is_sender(t[2][1]) and _is_msg_field(t[2][0], "mint_to")
    return False


def _is_msg_field(t, name):
    return (t[0] == "field" and t[2] == name and t[1][0] == "variant") or (t[0] == "param" and len(t) > 2 and t[2] == name)


def is_oracle_poster(prog, callterm):
    """P12 role: a local function that constructs the Oracle::PostRates message."""
    cb = _body_of_call(prog, callterm)
    if cb is None:
        return False
    for k in reachable_bodies(prog, [cb.key]):
        b = prog.bodies[k]
        for blk in b.blocks:
            for st in blk["stmts"]:
                rv = st.get("rv") or {}
                if rv.get("agg") == "adt" and rv["adt"].endswith("oracle::Oracle") and rv["variant"] == "PostRates":
                    return True
    return False


# --------------------------------------------------------------------------- withdraw / fees / recover (C02, C05, C07, C11)


def loaded_batch(prog, t, key_pred=None):
    """t = Ok payload of BATCHES.load(storage, key)"""
    if t[0] != "payload":
        return False
    c = unwrap_payload(t)
    if not (c[0] == "call" and c[1] in ("cw_storage_plus::Map::load",) and ns_of(prog, c[2][0]) == "batches"):
        return False
    return key_pred is None or key_pred(c[2][2])


def msg_field(t, variant, name):
    """t is field `name` of ExecuteMsg variant `variant` (handler parameter bound through the dispatcher)."""
    return t[0] == "field" and t[2] == name and t[1][0] == "variant" and t[1][2] == variant


def withdraw_rules(R, env, prog, hctx, rule, pid):
    """C02.R1 / C05.R1"""
    hk = hctx.body.key
    batch0 = lambda t: loaded_batch(prog, t, lambda k: msg_field(k, "Withdraw", "batch_id"))
    # (also as a component of a loader helper's result: `load_received_batch(storage, id)?.0`)
    batch = lambda t: batch0(t) or (t[0] == "field" and batch0(_head_resolved(prog, t)))
    req_key = lambda k: k[0] == "tuple" and len(k[1]) == 2 and k[1][0][0] == "field" and k[1][0][2] == "id" and batch(k[1][0][1]) and is_sender(k[1][1])

    def request(t):  # payload of unstake_requests().may_load(storage, (batch.id, sender))?
        if t[0] != "payload":
            return False
        inner = t[1]
        if inner[0] != "payload":
            return False
        c = unwrap_payload(inner)
        return c[0] == "call" and c[1].endswith("IndexedMap::may_load") and ns_of(prog, c[2][0]) == "unstake_requests" and req_key(c[2][2])

    # payout message
    sends = find_msgs(prog, hctx, env.depth, ["bank::v1beta1::MsgSend", "cosmwasm_std::BankMsg"])
    R.ob(rule, "Withdraw:one-payout", len(sends) == 1, "found %d bank sends" % len(sends), fn=hk)
    payout_bb = None
    for c, path, bi, t in sends:
        loc = c.body.loc(bi)
        elems = vec_elems(agg_field(t, "amount") or ("none",)) or []
        amt, den = coin_parts(elems[0]) if len(elems) == 1 else (None, None)
        good = False
        why = fmt(amt or ("none",))[:200]
        from engine.analysis import forms as _forms
        # a batch that passed the status == Received test has its received amount (invariant
        # Withdraw:received-set-with-status below): `received.or(fallback)` is `received`
        recv_some = ((lambda t_: t_[0] == "field" and t_[2] == "received_native_unstaked" and batch(t_[1])), ("ok", True))
        # (the payout is only reached for a batch whose status is Received: Withdraw:only-received-batches)
        st_recv = ((lambda t_: t_[0] == "field" and t_[2] == "status" and batch(t_[1])), ("variant", "Received"))
        cand = (list(_forms(prog, amt, 2)) + list(_forms(prog, amt, 3, (recv_some,))) + list(_forms(prog, amt, 4, (recv_some, st_recv)))) if amt is not None else []
        for af in cand:
            # (a helper such as compute_withdraw_amount(received, request, total), or an accessor of the batch
            # such as batch.withdrawable_native(), is looked through)
            if af[0] == "payload":
                from engine.analysis import ok_payload as _okp
                af = _okp(af[1])
            if not (af[0] == "call" and af[1] == "cosmwasm_std::Uint128::multiply_ratio" and len(af[2]) == 3):
                continue
            recv, num, den_ = af[2]
            if (
                recv[0] == "payload" and recv[1][0] == "field" and recv[1][2] == "received_native_unstaked" and batch(recv[1][1])
                and num[0] == "field" and num[2] == "amount" and request(num[1])
                and den_[0] == "field" and den_[2] == "batch_total_liquid_stake" and batch(den_[1])
            ):
                good = True
                break
        received_set_with_status(R, env, prog, rule, "Withdraw:received-set-with-status")
        R.ob(rule, "Withdraw:payout-formula", good, "payout = %s; expected received_native_unstaked.multiply_ratio(own request amount, batch_total_liquid_stake) of the batch named in the message" % why, loc=loc, fn=hk)
        R.ob(rule, "Withdraw:payout-denom", ibc_denom(prog, den), "payout denom %s" % fmt(den or ("none",))[:80], loc=loc, fn=hk)
        R.ob(rule, "Withdraw:payee-is-caller", is_sender(agg_field(t, "to_address") or ("none",)), "payout goes to %s" % fmt(agg_field(t, "to_address") or ("none",))[:80], loc=loc, fn=hk)
        R.ob(rule, "Withdraw:paid-from-contract", is_contract_addr(agg_field(t, "from_address") or ("none",)), "payout is sent from %s" % fmt(agg_field(t, "from_address") or ("none",))[:80], loc=loc, fn=hk)
        ok_resp = all(term_in_all_paths(term, lambda s_, t=t: norm(s_) == norm(t)) for _, term in success_terms(hctx))
        R.ob(rule, "Withdraw:payout-in-response", ok_resp, "the payout message does not reach the Response on every success path", loc=loc, fn=hk)
    # removal on every success path, under the caller's own key
    rms = [op for op in storage_ops_deep(prog, hctx, env.depth) if op["kind"] == "w" and ns_of(prog, op["args"][0]) == "unstake_requests"]
    R.ob(rule, "Withdraw:one-request-write", len(rms) == 1 and rms[0]["op"] == "remove", "unstake_requests writes in Withdraw: %s" % [o["op"] for o in rms], fn=hk)
    # nothing else is written: in particular the batch record (status, received amount, total) stays
    # as it is, so that the other requesters of the batch can still withdraw their share
    others = [(ns_of(prog, op["args"][0]), op["op"]) for op in storage_ops_deep(prog, hctx, env.depth) if op["kind"] == "w" and ns_of(prog, op["args"][0]) != "unstake_requests"]
    R.ob(rule, "Withdraw:writes-nothing-else", not others, "Withdraw also writes %s: a withdrawal must not change what the other requesters of the batch can claim" % others, fn=hk)
    for op in rms:
        R.ob(rule, "Withdraw:removes-own-request", req_key(op["args"][2]), "request removed under key %s, expected (loaded batch id, info.sender)" % fmt(op["args"][2])[:160], loc=op["loc"], fn=hk)
        R.ob(rule, "Withdraw:removal-on-every-success-path", must_pass(hctx, op["root_bb"]), "a success exit (payout) is reachable without deleting the claim: it can be withdrawn again", loc=op["loc"], fn=hk)
    # absence of a request is an error exit
    # (also `may_load(..)?.map(|r| r.amount).ok_or(NoRequest)?`: a test of a value that is Some exactly when the request is)
    G = Guard("has-request", subject=lambda s: s[0] == "payload" and request(("payload", s, "Ok/Some")), boolean=lambda t: (False if (t[0] == "call" and t[1] == "std::option::Option::is_none" and t[2][0][0] == "payload" and request(("payload", t[2][0], "Ok/Some"))) else (True if (t[0] == "call" and t[1] == "std::option::Option::is_some" and t[2][0][0] == "payload" and request(("payload", t[2][0], "Ok/Some"))) else None)),
              variant=lambda subj, names: ({"Some"} if (subj[0] == "payload" and request(("payload", subj, "Ok/Some"))) else None))
    found = []
    ok, off = guarded(hctx, G, prog, env.depth, found)
    R.ob(rule, "Withdraw:no-request-no-payout", ok, "a success exit is reachable for a caller without a request in the batch: %s" % (off,), fn=hk, found=found)
    # status must be Received
    G2 = status_guard(batch, "Received", "status-received")
    found = []
    ok, off = guarded(hctx, G2, prog, env.depth, found)
    R.ob(rule, "Withdraw:only-received-batches", ok, "a success exit is reachable for a batch whose status is not Received: %s" % (off,), fn=hk, found=found)


def fee_term(prog, t):
    """fee = dao_treasury_fee.multiply_ratio(reward, 100000) (any operand order of the product)"""
    if not (t[0] == "call" and t[1] == "cosmwasm_std::Uint128::multiply_ratio" and len(t[2]) == 3):
        return None
    a, b, c = t[2]
    return a, b, c


def is_reward(prog, t, _again=True):
    """the amount of the ibc-denom coin attached to the message — taken in the handler or by a
    local helper (`attached_ibc_token_amount(&config, &info.funds)?`)"""
    if t[0] == "field" and t[2] == "amount" and funds_coin(prog, t[1]):
        return True
    if t[0] == "payload":
        # funds.iter().find_map(|c| (c.denom == ibc_denom).then_some(c.amount))
        fm = unwrap_payload(t)
        if fm[0] == "call" and fm[1].endswith("Iterator::find_map") and len(fm[2]) == 2 and fm[2][1][0] == "closure":
            base_, path_ = field_path(fm[2][0])
            r_ = closure_result(prog, fm[2][1], params={2: ("elem", "funds")})
            if path_ == ["funds"] and is_param_of_type(base_, "MessageInfo") and r_ is not None and r_[0] == "call" and r_[1].split("::")[-1] == "then_some" and "bool" in r_[1] and len(r_[2]) == 2:
                cnd, val = r_[2]
                okc = cnd[0] == "call" and cnd[1] == "std::cmp::PartialEq::eq" and any(x_ == ("field", ("elem", "funds"), "denom") and loaded_field(prog, y_, "config", ["protocol_chain_config", "ibc_token_denom"], "staking") for x_, y_ in ((cnd[2][0], cnd[2][1]), (cnd[2][1], cnd[2][0])))
                if okc and val == ("field", ("elem", "funds"), "amount"):
                    return True
    if t[0] == "payload":
        # helper(..).ok_or(NoFunds)? / .map(|c| c.amount): the payload behind the combinators
        from engine.analysis import ok_payload as _okp
        t2 = _okp(t[1])
        if t2 != t and t2[0] != "phi" and is_reward(prog, t2, _again):
            return True
    if _again and t[0] == "payload":
        c = unwrap_payload(t)
        if c[0] == "call" and _body_of_call(prog, c) is not None:
            from engine.analysis import resolve_head, guarded as _guarded, Guard as _Guard, Ctx as _Ctx
            r = resolve_head(prog, t)
            if r != t and is_reward(prog, r, False):
                return True
            # loop spelling in a helper: `for coin in funds { if coin.denom == wanted { return Ok(coin.amount) } } Err(..)`
            funds_elem = lambda x: is_next_elem(x, lambda c_: field_path(c_)[1] == ["funds"] and is_param_of_type(field_path(c_)[0], "MessageInfo"))
            if r[0] == "field" and r[2] == "amount" and funds_elem(r[1]):
                cb = _body_of_call(prog, c)
                cc = _Ctx(cb, params={i + 1: a for i, a in enumerate(c[2])})

                def denom_eq(x):
                    if x[0] == "call" and x[1] in EQ:
                        a_, b_ = x[2]
                        for u, v in ((a_, b_), (b_, a_)):
                            if u[0] == "field" and u[2] == "denom" and norm(u[1]) == norm(r[1]) and loaded_field(prog, v, "config", ["protocol_chain_config", "ibc_token_denom"], "staking"):
                                return EQ[x[1]]
                    return None

                found = []
                ok, _ = _guarded(cc, _Guard("denom", boolean=denom_eq), prog, 1, found)
                return bool(ok and found)
    return False


def status_guard(batch_pred, status, name=None):
    """Guard: execution continues only if <batch>.status is `status` — written as `== / !=` with
    the BatchStatus value or as a `match` on the status (alone or inside a tuple pattern)."""
    st = lambda x: x[0] == "field" and x[2] == "status" and batch_pred(x[1])

    def boolean(t):
        if t[0] == "call" and t[1] in EQ:
            a, b = t[2]
            for x, y in ((a, b), (b, a)):
                if st(x) and y[0] == "agg" and y[1].endswith("BatchStatus") and y[2] == status:
                    return EQ[t[1]]
        return None

    def variant(subj, names):
        if st(subj) and status in names:
            return {status}
        return None

    return Guard(name or ("status==" + status), boolean=boolean, variant=variant)


def via_forms(prog, pred, depth=2):
    """pred lifted to value forms: true if the term, or the same value with local helpers / constructors
    inlined (a component of a tuple-returning helper, a builder method), satisfies pred"""
    from engine.analysis import forms

    def f(t):
        if pred(t):
            return True
        return any(pred(x) for x in forms(prog, t, depth))
    return f


def is_fee(prog, t, _lift=True):
    from .common import const_int
    p = fee_term(prog, t)
    if p is None:
        if _lift and (t[0] in ("field", "payload") or (t[0] == "call" and _body_of_call(prog, t) is not None)):
            # a component of a helper's result (`cfg.split_rewards(amount)?.0`): the value behind it
            return via_forms(prog, lambda x: is_fee(prog, x, False))(t)
        return False
    a, b, c = p
    rate = lambda x: loaded_field(prog, x, "config", ["protocol_fee_config", "dao_treasury_fee"], "staking")
    return ((rate(a) and is_reward(prog, b)) or (rate(b) and is_reward(prog, a))) and const_int(c) == 100000


def returns_its_input(body):
    """every value the (Result / Option returning) function can hand back as Ok / Some — built directly or through
    `cond.then(|| s.to_string()).ok_or(..)` — is its first parameter"""
    from engine.analysis import ok_payload as _okp
    pv = _okp(Ctx(body).T.return_term())
    vs = list(pv[1]) if pv[0] == "phi" else [pv]
    return bool(vs) and all(v_[0] == "param" and v_[1] == 1 for v_ in vs)


def treasury_pred(prog):
    return lambda t: loaded_field(prog, t, "config", ["protocol_fee_config", "treasury_address"], "staking")


# --------------------------------------------------------------------------- bech32 address validator shape (C13, C14)


def address_validator_shape(R, prog, key, rule, tag="address"):
    """a function (address, prefix) -> Result<Addr>: Ok only if bech32::decode(address) succeeded AND
    the DECODED human-readable part equals the prefix argument; returns the input string."""
    c = Ctx(prog.body(key))
    dec = lambda s: s[0] == "call" and s[1].startswith("bech32::decode") and s[2][0][0] == "param" and s[2][0][1] == 1

    def decoded(t):  # Ok payload of decode, possibly through map_err(..)?
        if t[0] != "payload":
            return False
        c_ = unwrap_payload(t)
        if c_[0] == "call" and c_[1] == "std::result::Result::map_err":
            c_ = c_[2][0]
        return dec(c_)

    G = Guard("decodes", subject=lambda s: dec(s) or (s[0] == "call" and s[1] == "std::result::Result::map_err" and dec(s[2][0])))
    found = []
    ok, off = guarded(c, G, prog, 2, found)
    R.ob(rule, tag + ":decode-must-succeed", ok, "an undecodable address is accepted: %s" % (off,), fn=key, found=found)

    def pfx(t):
        if t[0] == "call" and t[1] in EQ:
            a, b_ = t[2]
            for x, y in ((a, b_), (b_, a)):
                if x[0] == "field" and x[2] == "0" and decoded(x[1]) and y[0] == "param" and y[1] == 2:
                    return EQ[t[1]]
        return None

    found = []
    ok, off = guarded(c, Guard("prefix", boolean=pfx), prog, 2, found)
    R.ob(rule, tag + ":prefix-must-match", ok, "an address whose DECODED prefix differs from the expected prefix is accepted (a textual starts_with test is not enough: `osmovaloper1..` starts with `osmo`): %s" % (off,), fn=key, found=found)
    # every value that can come back as Ok(..) — built directly or through `cond.then(|| ..).ok_or_else(..)` — is the input
    from engine.analysis import ok_payload as _okp
    pv = _okp(c.T.return_term())
    oks = list(pv[1]) if pv[0] == "phi" else [pv]
    R.ob(rule, tag + ":returns-input", bool(oks) and all(v_[0] == "param" and v_[1] == 1 for v_ in oks), "the validated address returned is not the input string", fn=key)


def received_set_with_status(R, env, prog, rule, name):
    """invariant behind `received_native_unstaked.unwrap()` (and behind reading the received amount of a
    Received batch at all): every write that marks a batch Received stores Some(amount) in the same value"""
    from engine.analysis import storage_ops_deep, resolve_terms
    sites = site_contexts(prog, "staking", env)
    okr = False
    for site, c in sites.items():
        for o in storage_ops_deep(prog, c, env.depth):
            if o["kind"] == "w" and ns_of(prog, o["args"][0]) == "batches" and o.get("wop", o["op"]) == "save":
                v = o.get("value") if o.get("value") is not None else o["args"][-1]
                for base, d in struct_deltas(resolve_terms(prog, v, env.depth, None, o.get("assumptions", ()))):
                    cands = [d.get(("status",))] if base[0] != "agg" else [d.get(("status",)) or agg_field(base, "status")]
                    st = cands[0]
                    if st is not None and st[0] == "agg" and st[2] == "Received":
                        rv = d.get(("received_native_unstaked",)) or (agg_field(base, "received_native_unstaked") if base[0] == "agg" else None)
                        okr1 = rv is not None and rv[0] == "agg" and rv[2] == "Some"
                        okr = okr or okr1
                        R.ob(rule, name + ":" + site, okr1, "a batch is marked Received without received_native_unstaked := Some(..) in the same save", loc=o["loc"], fn=o["fn"])
    R.ob(rule, name, okr, "no site marks a batch Received together with the received amount", fn="staking")


def zero_worlds(h, is_amount):
    """(world where every `x.is_zero()` with is_amount(x) is false, world where it is true): a handler may
    skip `total -= x` when x is zero (same stored value), so deltas are judged where x != 0 and only
    required not to be wrong where x == 0"""
    isz = lambda t: t[0] == "call" and t[1].endswith("::is_zero") and t[2] and is_amount(t[2][0])
    nz = h.assume((None, lambda t: (False if isz(t) else None))).settle()
    z = h.assume((None, lambda t: (True if isz(t) else None))).settle()
    return nz, z


def is_pending_batch(prog, t, crate="staking"):
    """Ok payload of BATCHES.load(storage, PENDING_BATCH_ID.load()?)"""
    if t[0] != "payload":
        return False
    c = unwrap_payload(t)
    return c[0] == "call" and c[1] in ("cw_storage_plus::Map::load",) and ns_of(prog, c[2][0]) == "batches" and is_load(prog, c[2][2], "pending_batch_id", crate)
