"""Obligation bookkeeping, evidence writer, known-findings handling, VIOLATION lines."""
import json
import os
import time
import hashlib

VERIF = os.path.dirname(os.path.dirname(os.path.abspath(__file__)))
# negative controls run the same rules on a scratch copy; they must never overwrite the
# evidence / reports of the real tree
OUT = os.environ.get("VERIF_OUT", VERIF)


class Run:
    def __init__(self, pid, tier):
        self.pid = pid
        self.tier = tier
        self.t0 = time.time()
        self.obls = []  # dict(rule, instance, ok, detail, loc, key)
        self.infos = []
        self.floors = []
        self.functions = set()
        self.worlds = 0
        self.call_sites = 0
        self.rules = {}
        self.assumptions = []
        self.controls = []
        self.errors = []
        self._undecided = {}  # rule id -> reason: failing obligations of these rules are not decided
        self.undecided = []

    # -- declaring
    def rule(self, rid, text):
        self.rules[rid] = text

    def assume(self, text):
        if text not in self.assumptions:
            self.assumptions.append(text)

    def ob(self, rule, instance, ok, detail="", loc=None, fn=None, found=None):
        """one structural obligation.  key = rule|fn|instance (never a line number)."""
        key = "%s|%s|%s" % (rule, fn or "-", instance)
        if not ok and rule in self._undecided:
            # the code is not written in an idiom this rule models: neither discharged nor refuted
            self.undecided.append({"rule": rule, "instance": instance, "fn": fn, "reason": self._undecided[rule], "would_report": (detail or "")[:200]})
            if fn:
                self.functions.add(fn)
            return True
        self.obls.append(
            {"rule": rule, "instance": instance, "ok": bool(ok), "detail": detail, "loc": loc, "fn": fn, "key": key, "found": found}
        )
        if fn:
            self.functions.add(fn)
        return bool(ok)

    def info(self, rule, text):
        self.infos.append({"rule": rule, "text": text})

    def set_undecided(self, rules, reason):
        """from here on, a failing obligation of one of `rules` is recorded as UNDECIDED instead of
        a violation: used when the code under a shape-matching rule is not in any idiom the rule
        models (a deleted check is still in the idiom and still fails; a rewrite is not decided)."""
        for r in rules:
            self._undecided[r] = reason

    def clear_undecided(self, rules=None):
        for r in list(self._undecided) if rules is None else rules:
            self._undecided.pop(r, None)

    def floor(self, rule, what, count, minimum):
        """a rule that matched fewer instances than confirmed by hand passes vacuously: fail it."""
        self.floors.append({"rule": rule, "what": what, "count": count, "min": minimum})
        if count < minimum:
            self.ob(rule, "floor:" + what, False, "matched %d instance(s) of '%s', expected at least %d (anchor missing: the rule would pass vacuously)" % (count, what, minimum))

    def error(self, text):
        self.errors.append(text)

    # -- finishing
    def finish(self):
        kf_path = os.path.join(VERIF, "known_findings.json")
        known = {}
        if os.path.exists(kf_path):
            for e in json.load(open(kf_path)).get("findings", []):
                if e.get("status", "known") == "known" and e["property"] == self.pid:
                    known[e["key"]] = e
        viol = [o for o in self.obls if not o["ok"]]
        new = [o for o in viol if o["key"] not in known]
        old = [o for o in viol if o["key"] in known]
        os.makedirs(os.path.join(OUT, "reports"), exist_ok=True)
        os.makedirs(os.path.join(OUT, "evidence"), exist_ok=True)
        lines = []
        for o in old:
            lines.append("KNOWN-FINDING: property=%s %s" % (self.pid, known[o["key"]]["what"]))
        for o in new:
            h = hashlib.sha1(o["key"].encode()).hexdigest()[:10]
            rp = os.path.join(OUT, "reports", "%s-%s.json" % (self.pid, h))
            with open(rp, "w") as fh:
                json.dump({"property": self.pid, "tier": self.tier, **{k: o[k] for k in ("rule", "instance", "detail", "loc", "fn", "key", "found")}, "rule_text": self.rules.get(o["rule"], "")}, fh, indent=1, default=str)
            lines.append("VIOLATION property=%s replay=%s" % (self.pid, rp))
            lines.append("  %s  %s  %s  %s :: %s" % (o["loc"] or "-", o["fn"] or "-", o["rule"], o["instance"], o["detail"]))
        for u in self.undecided[:20]:
            lines.append("UNDECIDED: property=%s %s %s (%s)" % (self.pid, u["rule"], u["instance"], u["reason"]))
        for e in self.errors:
            lines.append("ERROR: " + e)
        nontrivial = set(o["key"] for o in self.obls if o["ok"] or o["key"] in known or True)
        samples = []
        per_rule = {}
        for o in self.obls:
            per_rule.setdefault(o["rule"], [0, 0])
            per_rule[o["rule"]][0] += 1
            per_rule[o["rule"]][1] += 1 if o["ok"] else 0
        seen_rules = set()
        for o in self.obls:
            if o["rule"] in seen_rules and len(samples) >= 12:
                continue
            seen_rules.add(o["rule"])
            if len(samples) < 40:
                samples.append({"rule": o["rule"], "fn": o["fn"], "instance": o["instance"], "ok": o["ok"], "at": o["loc"], "detail": (o["detail"] or "")[:300]})
        ev = {
            "property_id": self.pid,
            "tier": self.tier,
            "seed": int(os.environ.get("VERIF_SEED", "0") or 0),
            "level": "other",
            "coverage": {
                "explanation": "static analysis of the type-checked MIR / syntax tree of /repo's current working tree: each rule is a finite set of structural obligations (cut-set dominance, def-use identity, who-may tables, comparison truth tables), each either discharged on all paths or reported with the offending construct. No contract code is executed.",
                "rule": "an obligation is one (rule, function, instance) triple evaluated on the current tree; it is non-trivial when it matched a real construct in the code (rules that match nothing trip their floor instead of passing)",
                "rules": [{"id": k, "text": v, "obligations": per_rule.get(k, [0, 0])[0], "discharged": per_rule.get(k, [0, 0])[1]} for k, v in self.rules.items()],
                "obligations": len(self.obls),
                "discharged": len([o for o in self.obls if o["ok"]]),
                "evaluations": max(1, len(self.obls)),
                "distinct_nontrivial": len(set(o["key"] for o in self.obls)),
                "functions": sorted(self.functions),
                "n_functions": len(self.functions),
                "call_sites": self.call_sites,
                "worlds": self.worlds,
                "floors": self.floors,
                "samples": samples or [{"note": "no obligations"}],
                "information": self.infos[:60],
                "undecided": self.undecided[:60],
                "n_undecided": len(self.undecided),
                "known_findings_matched": [o["key"] for o in old],
                "negative_controls": self.controls,
                "exhaustive": True,
                "trusted_base": [
                    "rustc MIR construction and callee resolution",
                    "CosmWasm transaction semantics (Err discards all writes and messages)",
                    "documented contracts of cw-storage-plus, cw-controllers, cw2, cw-utils, bech32, sha2, prost-derive",
                    "reviewed rule tables in /verif/rules",
                ],
            },
            "assumptions": self.assumptions,
            "wall_s": round(time.time() - self.t0, 3),
            "violations": len(new),
        }
        with open(os.path.join(OUT, "evidence", self.pid + ".json"), "w") as fh:
            json.dump(ev, fh, indent=1, default=str)
        for l in lines:
            print(l)
        status = 1 if new else (2 if self.errors else 0)
        print(
            "%s %s: %d obligations, %d discharged, %d known finding(s), %d new violation(s), %d functions, %.1fs"
            % (self.pid, self.tier, len(self.obls), ev["coverage"]["discharged"], len(old), len(new), len(self.functions), ev["wall_s"])
        )
        return status


class Remap:
    """view of a Run that renames rule ids and drops the obligations of all other rules: lets a
    property re-use the rule bodies of another property under its own rule ids."""

    def __init__(self, R, mapping):
        self._R = R
        self._m = mapping

    def __getattr__(self, n):
        return getattr(self._R, n)

    def rule(self, rid, text):
        return None

    def assume(self, text):
        return None

    def ob(self, rule, instance, ok, detail="", loc=None, fn=None, found=None):
        if rule in self._m:
            return self._R.ob(self._m[rule], instance, ok, detail, loc, fn, found)
        return bool(ok)

    def floor(self, rule, what, count, minimum):
        if rule in self._m:
            return self._R.floor(self._m[rule], what, count, minimum)

    def info(self, rule, text):
        if rule in self._m:
            return self._R.info(self._m[rule], text)

    def set_undecided(self, rules, reason):
        return self._R.set_undecided([self._m[r] for r in rules if r in self._m], reason)

    def clear_undecided(self, rules=None):
        return self._R.clear_undecided(None if rules is None else [self._m[r] for r in rules if r in self._m])
