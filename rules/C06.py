"""C06 Unstake batch lifecycle and timing."""
from .common import *
from . import shared
from .shared import agg_field, same
from engine.analysis import resolve_terms, storage_ops_deep, must_pass, aggregates

CRATE = "staking"
PENDING_WRITERS = {"instantiate": "creates batch 1", "SubmitBatch": "opens the next pending batch"}
FIELD_WRITERS = {
    "expected_native_unstaked": {"instantiate": "None in the first batch", "SubmitBatch": "Some(U) on the submitted batch, None in the new pending batch"},
    "received_native_unstaked": {"instantiate": "None", "SubmitBatch": "None in the new pending batch", "ReceiveUnstakedTokens": "Some(received)"},
    "status": {"instantiate": "Pending", "SubmitBatch": "Submitted on the old, Pending on the new batch", "ReceiveUnstakedTokens": "Received"},
}


def is_new_batch(t):
    """t (resolved) = Batch{id, batch_total_liquid_stake: 0, next_batch_action_time: Some(d), status: Pending, rest None/Some(0)}"""
    if not (t[0] == "agg" and t[1].endswith("staking::Batch")):
        return None
    st = agg_field(t, "status")
    ok = st is not None and st[0] == "agg" and st[2] == "Pending"
    ok = ok and const_int(agg_field(t, "batch_total_liquid_stake")) == 0
    for f in ("expected_native_unstaked", "received_native_unstaked"):
        v = agg_field(t, f)
        ok = ok and v is not None and v[0] == "agg" and v[2] == "None"
    d = agg_field(t, "next_batch_action_time")
    if not ok or d is None or not (d[0] == "agg" and d[2] == "Some"):
        return None
    return agg_field(t, "id"), fold(d[3][0][2])


def is_sum(t, p, q):
    return t[0] == "bin" and t[1] == "Add" and ((p(t[2]) and q(t[3])) or (p(t[3]) and q(t[2])))


def run(R, env):
    prog = env.prog("default")
    R.rule("C06.R1", "pairing: every PENDING_BATCH_ID.save(v) is accompanied, on every success path of the same handler, by BATCHES.save(v, fresh Pending batch with id v, total 0, deadline now + config.batch_period); v = 1 at instantiation and loaded-pending-batch.id + 1 in SubmitBatch; nobody else writes PENDING_BATCH_ID")
    R.rule("C06.R2", "status typestate: SubmitBatch saves the loaded pending batch with status := Submitted; ReceiveUnstakedTokens saves the named batch with status := Received only behind `status == Submitted`; Batch values are constructed only by the package's constructor; no BATCHES.remove anywhere")
    R.rule("C06.R3", "deadlines: SubmitBatch rejects iff now < next_batch_action_time (no success exit when it is None); ReceiveUnstakedTokens rejects iff next_batch_action_time > now; the submitted batch's deadline := now + native_chain_config.unbonding_period; now = env.block.time.seconds()")
    R.rule("C06.R4", "SubmitBatch has no success exit when the pending batch has no unstake request")
    R.rule("C06.R5", "Batch.expected_native_unstaked / received_native_unstaked / status change only from the reviewed sites; LiquidUnstake never touches them")
    R.rule("C06.R6", "ReceiveUnstakedTokens is behind the staker hook-sender guard")
    R.assume("`succeeds exactly when` in the direction that depends on the numeric ensure!(total_lst >= batch_total) is not decided")
    sites = shared.site_contexts(prog, CRATE, env)
    for s in ("SubmitBatch", "ReceiveUnstakedTokens", "instantiate", "LiquidUnstake"):
        if s not in sites:
            R.ob("C06.R1", s + ":site", False, "missing site", fn="staking::contract")
            return
    pend_id = lambda t: t[0] == "payload" and is_load(prog, t, "pending_batch_id", CRATE)
    pend_batch = lambda t: shared.loaded_batch(prog, t, pend_id)
    batch_period = lambda t: loaded_field(prog, t, "config", ["batch_period"], CRATE) or (t[0] == "field" and t[2] == "batch_period" and is_param_of_type(t[1], "InstantiateMsg")) or (t[0] == "field" and t[2] == "batch_period" and t[1][0] == "agg" and t[1][1].endswith("state::Config"))
    # ------------------------------------------------------------ R1
    nsave = 0
    for site, c in sites.items():
        ops = storage_ops_deep(prog, c, env.depth)
        ps = [o for o in ops if o["kind"] == "w" and ns_of(prog, o["args"][0]) == "pending_batch_id"]
        if not ps:
            continue
        R.ob("C06.R1", "pending-id-writer:" + site, site in PENDING_WRITERS, "PENDING_BATCH_ID is written from %s; reviewed writers %s" % (site, sorted(PENDING_WRITERS)), loc=ps[0]["loc"], fn=ps[0]["fn"])
        bs = [o for o in ops if o["kind"] == "w" and ns_of(prog, o["args"][0]) == "batches" and o["op"] == "save"]
        for p in ps:
            nsave += 1
            v = resolve_terms(prog, p["args"][2], env.depth)
            vi = const_int(v)
            vf = fold(v)
            if site == "instantiate":
                okv = vi == 1
            else:
                okv = vf[0] == "bin" and vf[1] == "Add" and ((vf[2][0] == "field" and vf[2][2] == "id" and pend_batch(vf[2][1]) and const_int(vf[3]) == 1) or (vf[3][0] == "field" and vf[3][2] == "id" and pend_batch(vf[3][1]) and const_int(vf[2]) == 1))
            R.ob("C06.R1", site + ":next-id", okv, "new pending id = %s; expected %s" % (fmt(vf)[:160], "1" if site == "instantiate" else "loaded pending batch id + 1"), loc=p["loc"], fn=p["fn"])
            R.ob("C06.R1", site + ":id-save-on-every-success-path", must_pass(c, p["root_bb"]), "a success exit is reachable without saving the pending batch id", loc=p["loc"], fn=p["fn"])
            paired = False
            for b in bs:
                key = fold(resolve_terms(prog, b["args"][2], env.depth))
                val = resolve_terms(prog, b["args"][3], env.depth)
                nb = is_new_batch(val)
                if nb is None:
                    continue
                bid, dl = nb
                if norm(fold(bid)) == norm(vf) and norm(key) == norm(vf) and is_sum(dl, is_block_seconds, batch_period) and must_pass(c, b["root_bb"]):
                    paired = True
            R.ob("C06.R1", site + ":paired-with-fresh-batch", paired, "no BATCHES.save(same id, fresh Pending batch {id, total 0, deadline now + batch_period}) on every success path next to the PENDING_BATCH_ID write", loc=p["loc"], fn=p["fn"])
    R.floor("C06.R1", "PENDING_BATCH_ID.save sites", nsave, 2)
    # ------------------------------------------------------------ R2/R3 SubmitBatch
    h = sites["SubmitBatch"]
    hk = h.body.key
    subm = None
    for o in storage_ops_deep(prog, h, env.depth):
        if o["kind"] == "w" and ns_of(prog, o["args"][0]) == "batches" and o["op"] == "save":
            val = resolve_terms(prog, o["args"][3], env.depth)
            if is_new_batch(val) is not None:
                continue
            subm = o
            key = resolve_terms(prog, o["args"][2], env.depth)
            ds = struct_deltas(val)
            good = len(ds) == 1 and pend_batch(ds[0][0])
            d = ds[0][1] if ds else {}
            R.ob("C06.R2", "SubmitBatch:saves-the-loaded-pending-batch", good and key[0] == "field" and key[2] == "id" and pend_batch(key[1]), "submitted batch is %s saved under %s; expected the batch loaded through PENDING_BATCH_ID under its own id" % (fmt(ds[0][0])[:120] if ds else None, fmt(key)[:120]), loc=o["loc"], fn=hk)
            st = d.get(("status",))
            R.ob("C06.R2", "SubmitBatch:status:=Submitted", st is not None and st[0] == "agg" and st[2] == "Submitted", "status := %s" % fmt(st or ("none",))[:80], loc=o["loc"], fn=hk)
            dl = d.get(("next_batch_action_time",))
            unb = lambda t: loaded_field(prog, t, "config", ["native_chain_config", "unbonding_period"], CRATE)
            okd = dl is not None and dl[0] == "agg" and dl[2] == "Some" and is_sum(fold(dl[3][0][2]), is_block_seconds, unb)
            R.ob("C06.R3", "SubmitBatch:unbonding-deadline", okd, "submitted batch's next_batch_action_time := %s; expected Some(now + native_chain_config.unbonding_period)" % fmt(fold(dl) if dl else ("none",))[:160], loc=o["loc"], fn=hk)
            R.ob("C06.R2", "SubmitBatch:only-lifecycle-fields", set(d) <= {("status",), ("next_batch_action_time",), ("expected_native_unstaked",)}, "fields written on the submitted batch: %s" % sorted(".".join(p) for p in d), loc=o["loc"], fn=hk)
            R.ob("C06.R2", "SubmitBatch:batch-save-on-every-success-path", must_pass(h, o["root_bb"]), "SubmitBatch can succeed without saving the submitted batch", loc=o["loc"], fn=hk)
    R.ob("C06.R2", "SubmitBatch:saves-submitted-batch", subm is not None, "no save of the submitted batch found", fn=hk)
    nba = lambda t: t[0] == "field" and t[2] == "next_batch_action_time" and pend_batch(t[1])
    rem, n = world_edges(h, nba, True)
    w = h.with_removed(rem).settle()
    R.worlds += 2
    # (in this world — a deadline is stored — `next_batch_action_time.unwrap_or(k)` is the stored deadline too)
    nba_val = lambda t: (t[0] == "payload" and nba(t[1])) or (t[0] == "call" and t[1] in ("std::option::Option::unwrap_or", "std::option::Option::unwrap_or_default", "std::option::Option::unwrap_or_else") and t[2] and nba(t[2][0]))
    DG = deadline_guard("batch-period", is_block_seconds, nba_val, {"<"})
    found = []
    w = w.assume_ok(nba, True).settle()
    ok, off = guarded(w, DG, prog, env.depth, found)
    R.ob("C06.R3", "SubmitBatch:deadline", n >= 1 and ok, "SubmitBatch can succeed without `reject iff now < next_batch_action_time` (comparisons seen %s): %s" % (DG.seen, off), fn=hk, found=found)
    rem, n2 = world_edges(h, nba, False)
    w0 = h.with_removed(rem).settle()
    R.ob("C06.R3", "SubmitBatch:no-deadline-no-success", n2 >= 1 and not [e for e in exits(w0) if e["kind"] != "err"], "with next_batch_action_time = None SubmitBatch has a success exit", fn=hk)
    # R4 emptiness
    def pending_requests(x):
        return any(s_[0] == "call" and s_[1].endswith("IndexedMap::prefix") and ns_of(prog, s_[2][0]) == "unstake_requests" and (pend_id(s_[2][1]) or (s_[2][1][0] == "field" and s_[2][1][2] == "id" and pend_batch(s_[2][1][1]))) for s_ in subterms(x))

    def empty_test(t):
        # `range(..).next().is_none()` / `.is_some()` over the pending batch's requests
        if t[0] == "call" and t[1] in ("std::option::Option::is_none", "std::option::Option::is_some") and t[2] and t[2][0][0] == "call" and t[2][0][1].endswith("Iterator::next") and pending_requests(t[2][0]):
            return t[1].endswith("is_some")
        rel = cmp_rel(t, lambda x: x[0] == "call" and x[1].endswith("Iterator::count") and any(s_[0] == "call" and s_[1].endswith("IndexedMap::prefix") and ns_of(prog, s_[2][0]) == "unstake_requests" and pend_id(s_[2][1]) for s_ in subterms(x)), lambda y: const_int(y) == 0)
        if rel is None:
            return None
        if rel == {"="}:
            return False
        if rel == {"<", ">"} or rel == {">"}:
            return True
        return None
    found = []
    ok, off = guarded(h, Guard("non-empty", boolean=empty_test), prog, env.depth, found)
    R.ob("C06.R4", "SubmitBatch:empty-batch-rejected", ok, "SubmitBatch can succeed for a pending batch without requests: %s" % (off,), fn=hk, found=found)
    # ------------------------------------------------------------ ReceiveUnstakedTokens
    h = sites["ReceiveUnstakedTokens"]
    hk = h.body.key
    named = lambda t: shared.loaded_batch(prog, t, lambda k: shared.msg_field(k, "ReceiveUnstakedTokens", "batch_id"))
    nrecv = 0
    for o in storage_ops_deep(prog, h, env.depth):
        if o["kind"] == "w" and ns_of(prog, o["args"][0]) == "batches":
            nrecv += 1
            val = resolve_terms(prog, o["args"][3], env.depth)
            key = resolve_terms(prog, o["args"][2], env.depth)
            ds = struct_deltas(val)
            good = o["op"] == "save" and len(ds) == 1 and named(ds[0][0]) and key[0] == "field" and key[2] == "id" and named(key[1])
            R.ob("C06.R2", "ReceiveUnstakedTokens:saves-the-named-batch", good, "saves %s under %s" % (fmt(ds[0][0])[:120] if ds else None, fmt(key)[:100]), loc=o["loc"], fn=hk)
            d = ds[0][1] if ds else {}
            st = d.get(("status",))
            R.ob("C06.R2", "ReceiveUnstakedTokens:status:=Received", st is not None and st[0] == "agg" and st[2] == "Received", "status := %s" % fmt(st or ("none",))[:80], loc=o["loc"], fn=hk)
            R.ob("C06.R2", "ReceiveUnstakedTokens:only-lifecycle-fields", set(d) <= {("status",), ("next_batch_action_time",), ("received_native_unstaked",)} and ("received_native_unstaked",) in d, "fields written: %s (expected_native_unstaked must never change after submission)" % sorted(".".join(p) for p in d), loc=o["loc"], fn=hk)
            # "only through a staked-asset payment": the amount recorded is the ibc-denom coin attached to the message
            # (no default when it is missing: `funds.find(denom)` absent is an error exit, not a zero)
            rv = d.get(("received_native_unstaked",))
            rvs = [rv] + [s_[3] for s_ in subterms(o["args"][3]) if s_[0] == "upd" and s_[2] == ("received_native_unstaked",)]  # (as written, too: a helper that finds the coin is recognised by shared.is_reward)
            paid_ok = any(x is not None and x[0] == "agg" and x[2] == "Some" and shared.is_reward(prog, x[3][0][2]) for x in rvs)
            R.ob("C06.R2", "ReceiveUnstakedTokens:received-amount-is-the-payment", paid_ok, "received_native_unstaked := %s; expected Some(amount of the ibc-denom coin attached to the message), a missing coin being an error" % fmt(rv or ("none",))[:160], loc=o["loc"], fn=hk)
    R.floor("C06.R2", "BATCHES writes in ReceiveUnstakedTokens", nrecv, 1)
    found = []
    ok, off = guarded(h, shared.status_guard(named, "Submitted"), prog, env.depth, found)
    R.ob("C06.R2", "ReceiveUnstakedTokens:only-submitted", ok, "a batch that is not Submitted can become Received: %s" % (off,), fn=hk, found=found)
    nb2 = lambda t: t[0] == "field" and t[2] == "next_batch_action_time" and named(t[1])
    rem, n = world_edges(h, nb2, True)
    w = h.with_removed(rem).settle()
    DG = deadline_guard("unbonding", lambda t: t[0] == "payload" and nb2(t[1]), is_block_seconds, {">"})
    found = []
    ok, off = guarded(w, DG, prog, env.depth, found)
    R.ob("C06.R3", "ReceiveUnstakedTokens:deadline", n >= 1 and ok, "the batch can become Received without `reject iff next_batch_action_time > now` (comparisons seen %s): %s" % (DG.seen, off), fn=hk, found=found)
    rem, n2 = world_edges(h, nb2, False)
    w0 = h.with_removed(rem).settle()
    R.ob("C06.R3", "ReceiveUnstakedTokens:no-deadline-no-success", n2 >= 1 and not [e for e in exits(w0) if e["kind"] != "err"], "with next_batch_action_time = None the batch can become Received", fn=hk)
    dctx, table = handlers(prog, CRATE)
    shared.hook_sender(R, env, prog, dctx, table["ReceiveUnstakedTokens"], "ReceiveUnstakedTokens", "staker_address", "C06.R6")
    # ------------------------------------------------------------ R2 constructors / removes, R5 writers
    ctor = []
    for b in list(prog.fn_bodies(CRATE)) + list(prog.fn_bodies("milky_way")):
        for bi, si, t in aggregates(Ctx(b), lambda adt, var: adt.endswith("staking::Batch")):
            sd_ = struct_deltas(t)
            if sd_ and all(base_[0] != "agg" for base_, _ in sd_):
                continue  # `Batch { f: v, ..loaded }`: an update of an existing batch, not a construction
            ctor.append(b.key)
    R.ob("C06.R2", "Batch-constructors", set(ctor) == {"milky_way::staking::Batch::new"}, "Batch values are constructed in %s; expected only the package constructor (which sets Pending)" % sorted(set(ctor)), fn="milky_way::staking::Batch::new")
    rm = []
    for site, c in sites.items():
        for o in storage_ops_deep(prog, c, env.depth):
            if o["kind"] == "w" and ns_of(prog, o["args"][0]) == "batches" and o["op"] == "remove":
                rm.append(site)
    R.ob("C06.R2", "no-BATCHES.remove", not rm, "batches are removed from %s" % rm, fn="staking")
    # who changes the lifecycle fields (values resolved through the constructor / update_status)
    for fld, allowed in FIELD_WRITERS.items():
        who = {}
        for site, c in sites.items():
            for o in storage_ops_deep(prog, c, env.depth):
                if o["kind"] != "w" or ns_of(prog, o["args"][0]) != "batches":
                    continue
                alts = shared.write_value_alternatives(prog, o, "batches")
                changed = alts is None
                for base, d in alts or []:
                    base_r = resolve_terms(prog, base, env.depth)
                    full = struct_deltas(resolve_terms(prog, ("upd", base, (), base) if False else base, env.depth))
                    val = o["args"][-1] if o["op"] == "save" else None
                    if val is not None:
                        rs = struct_deltas(resolve_terms(prog, val, env.depth))
                    else:
                        rs = [(base_r, d)]
                    for b2, d2 in rs:
                        if b2[0] == "agg":
                            changed = True
                        elif not shared.is_stored_base(prog, b2, "batches", CRATE):
                            changed = True
                        if any(p[0] == fld for p in d2):
                            changed = True
                if changed:
                    who.setdefault(site, o)
        for site, o in who.items():
            R.ob("C06.R5", "%s-writer:%s" % (fld, site), site in allowed, "Batch.%s may change from %s; reviewed writers %s" % (fld, site, sorted(allowed)), loc=o["loc"], fn=o["fn"])
        R.floor("C06.R5", "sites changing Batch." + fld, len(who), 2)
