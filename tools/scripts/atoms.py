#!/usr/bin/env python3
"""debug helper: print switch atoms, exits and storage ops of bodies. usage: atoms.py [config] <substr>"""
import sys, os
sys.path.insert(0, os.path.dirname(os.path.dirname(os.path.dirname(os.path.abspath(__file__)))))
from engine import facts
from engine.mir import *
from engine.analysis import *
args=sys.argv[1:]
cfg='default'
if args and args[0] in ('default','miniwasm'): cfg=args.pop(0)
P=Program(facts.ensure(cfg))
for k,b in P.bodies.items():
    if any(a in k for a in args) and 'promoted' not in k and b.kind in('fn','closure'):
        ctx=Ctx(b)
        print('=====',k)
        for bi,atom in ctx.atoms():
            if atom[0]=='variant': print(' bb%d VARIANT %s -> %s'%(bi,fmt(atom[1]),atom[2]))
            elif atom[0]=='bool': print(' bb%d BOOL %s -> T%s F%s'%(bi,fmt(atom[1]),atom[2][True],atom[2][False]))
            else: print(' bb%d INT %s -> %s'%(bi,fmt(atom[1]),atom[2]))
        for e in exits(ctx):
            print(' EXIT bb%d %s %s'%(e['bb'],e['kind'],fmt(e['term'])[:1500] if e['term'] else ''))
        for o in storage_ops(ctx):
            print(' STORE bb%d %s %s %s %s'%(o['bb'],o['kind'],o['type'],o['op'],[fmt(a)[:200] for a in o['args']]))
